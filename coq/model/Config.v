(* The configuration of an application object (poorwsgi/wsgi.py
   Application.__config): a finite map from the 21 configuration keys to
   Python values, created by __init__ ([cfg_init]) and changed only through
   the property setters ([cfg_set]), each of which stores a coercion of the
   assigned value or refuses it (an exception; nothing is stored).

   The definitions generated from the current source (gen/ConfigGen.v by
   harness/py2v_config.py) are proved equal to these in
   proofs/ConfigGenEq.v.  The second part is the policy of the census of
   writers of the configuration.

   Not modelled: the setters of auth_type (capitalises a str, needs
   secret_key) and auth_algorithm (looks the name up in
   digest.AUTH_DIGEST_ALGORITHMS, also stores the hash function); they are
   [kind k = None] like the two keys without a setter. *)
From Coq Require Import List String Bool ZArith.
Require Import PW.lib.PyConfig.
Import ListNotations.
Open Scope string_scope.

Inductive ckey :=
| KDebug | KDocumentRoot | KDocumentIndex | KAutoArgs | KAutoForm | KAutoJson
| KAutoData | KAutoCookies | KKeepBlankValues | KStrictParsing | KDataSize
| KCachedSize | KReadTimeout | KFileCallback | KJsonMimeTypes
| KFormMimeTypes | KSecretKey | KAuthType | KAuthAlgorithm | KAuthQop
| KAuthTimeout.

Definition all_keys : list ckey :=
  [KDebug; KDocumentRoot; KDocumentIndex; KAutoArgs; KAutoForm; KAutoJson;
   KAutoData; KAutoCookies; KKeepBlankValues; KStrictParsing; KDataSize;
   KCachedSize; KReadTimeout; KFileCallback; KJsonMimeTypes; KFormMimeTypes;
   KSecretKey; KAuthType; KAuthAlgorithm; KAuthQop; KAuthTimeout].

Definition ckey_eq_dec : forall a b : ckey, {a = b} + {a <> b}.
Proof. decide equality. Defined.

Definition key_name (k : ckey) : string :=
  match k with
  | KDebug => "debug" | KDocumentRoot => "document_root"
  | KDocumentIndex => "document_index" | KAutoArgs => "auto_args"
  | KAutoForm => "auto_form" | KAutoJson => "auto_json"
  | KAutoData => "auto_data" | KAutoCookies => "auto_cookies"
  | KKeepBlankValues => "keep_blank_values"
  | KStrictParsing => "strict_parsing" | KDataSize => "data_size"
  | KCachedSize => "cached_size" | KReadTimeout => "read_timeout"
  | KFileCallback => "file_callback" | KJsonMimeTypes => "json_mime_types"
  | KFormMimeTypes => "form_mime_types" | KSecretKey => "secret_key"
  | KAuthType => "auth_type" | KAuthAlgorithm => "auth_algorithm"
  | KAuthQop => "auth_qop" | KAuthTimeout => "auth_timeout"
  end.

(* what a setter does with the assigned value *)
Inductive coercion :=
| CBool      (* bool(value) *)
| CInt       (* int(value); may raise *)
| CKeep      (* value *)
| COnOff     (* 'On' if bool(value) else 'Off' *)
| CQop       (* value, must be one of '', 'auth', None *)
| CTimeout.  (* value, must be None or an int *)

Definition kind (k : ckey) : option coercion :=
  match k with
  | KDebug | KDocumentIndex => Some COnOff
  | KAutoArgs | KAutoForm | KAutoJson | KAutoData | KAutoCookies => Some CBool
  | KKeepBlankValues | KStrictParsing | KDataSize => Some CInt
  | KDocumentRoot | KCachedSize | KReadTimeout | KFileCallback
  | KSecretKey => Some CKeep
  | KAuthQop => Some CQop
  | KAuthTimeout => Some CTimeout
  | KJsonMimeTypes | KFormMimeTypes => None     (* no setter *)
  | KAuthType | KAuthAlgorithm => None          (* setter not modelled *)
  end.

(* keys whose getter answers `stored == 'On'` instead of the stored value *)
Definition is_on_off (k : ckey) : bool :=
  match k with KDebug | KDocumentIndex => true | _ => false end.

Definition config := ckey -> cval.

Definition cfg_init : config := fun k =>
  match k with
  | KAutoArgs | KAutoForm | KAutoJson | KAutoData | KAutoCookies => VBool true
  | KCachedSize | KDataSize => VInt 65365
  | KReadTimeout => VInt 10
  | KKeepBlankValues | KStrictParsing => VInt 0
  | KFileCallback | KSecretKey | KAuthType => VNone
  | KJsonMimeTypes => VStrs ["application/json"; "application/javascript";
                             "application/merge-patch+json"]
  | KFormMimeTypes => VStrs ["application/x-www-form-urlencoded";
                             "multipart/form-data"]
  | KDebug | KDocumentIndex => VStr "Off"
  | KDocumentRoot => VStr ""
  | KAuthAlgorithm => VStr "MD5-sess"
  | KAuthQop => VStr "auth"
  | KAuthTimeout => VInt 300
  end.

Section Config.
  Variable ios : int_parser.      (* int() of a str *)

  Definition coerce (c : coercion) (v : cval) : option cval :=
    match c with
    | CBool => Some (VBool (py_truthy v))
    | CInt => py_int ios v
    | CKeep => Some v
    | COnOff => Some (VStr (if py_truthy v then "On" else "Off"))
    | CQop => if existsb (py_eqb v) [VStr ""; VStr "auth"; VNone]
              then Some v else None
    | CTimeout => if existsb (py_has_type v) ["NoneType"; "int"]
                  then Some v else None
    end.

  (* the value key [k] stores when [v] is assigned; None = refused *)
  Definition coerce_key (k : ckey) (v : cval) : option cval :=
    match kind k with Some c => coerce c v | None => None end.

  Definition upd (c : config) (k : ckey) (w : cval) : config :=
    fun k' => if ckey_eq_dec k' k then w else c k'.

  Definition cfg_try_set (k : ckey) (v : cval) (c : config) : option config :=
    option_map (upd c k) (coerce_key k v).

  (* `app.<k> = v`, exceptions swallowed *)
  Definition cfg_set (k : ckey) (v : cval) (c : config) : config :=
    match cfg_try_set k v c with Some c' => c' | None => c end.

  Definition view (k : ckey) (w : cval) : cval :=
    if is_on_off k then VBool (py_eqb w (VStr "On")) else w.

  (* `app.<k>` *)
  Definition cfg_get (k : ckey) (c : config) : cval := view k (c k).

  Definition op := (ckey * cval)%type.
  Definition run_ops (ops : list op) (c : config) : config :=
    fold_left (fun c o => cfg_set (fst o) (snd o) c) ops c.

  (* the coercion of the last accepted value assigned to [k] *)
  Definition last_accepted (k : ckey) (ops : list op) : option cval :=
    fold_left (fun acc o =>
                 if ckey_eq_dec (fst o) k
                 then match coerce_key k (snd o) with
                      | Some w => Some w
                      | None => acc
                      end
                 else acc) ops None.
End Config.

(* ---- policy of the census (gen/ConfigGen.v [config_writers]):
   (function, what) for every mention of the configuration dictionary or of
   the private attributes the getters read that is not a plain read of one
   entry *)
Definition config_writer := (string * string)%type.

Definition allowed_config_writers : list config_writer :=
  [ ("wsgi.Application.__init__", "arg0.__config = <dict>");
    ("wsgi.Application.__init__", "arg0.__auth_hash = md5");
    ("wsgi.Application.auto_args.setter", "arg0.__config['auto_args']");
    ("wsgi.Application.auto_form.setter", "arg0.__config['auto_form']");
    ("wsgi.Application.auto_json.setter", "arg0.__config['auto_json']");
    ("wsgi.Application.auto_data.setter", "arg0.__config['auto_data']");
    ("wsgi.Application.cached_size.setter", "arg0.__config['cached_size']");
    ("wsgi.Application.data_size.setter", "arg0.__config['data_size']");
    ("wsgi.Application.auto_cookies.setter", "arg0.__config['auto_cookies']");
    ("wsgi.Application.debug.setter", "arg0.__config['debug']");
    ("wsgi.Application.document_root.setter",
     "arg0.__config['document_root']");
    ("wsgi.Application.document_index.setter",
     "arg0.__config['document_index']");
    ("wsgi.Application.secret_key.setter", "arg0.__config['secret_key']");
    ("wsgi.Application.keep_blank_values.setter",
     "arg0.__config['keep_blank_values']");
    ("wsgi.Application.strict_parsing.setter",
     "arg0.__config['strict_parsing']");
    ("wsgi.Application.file_callback.setter",
     "arg0.__config['file_callback']");
    ("wsgi.Application.read_timeout.setter", "arg0.__config['read_timeout']");
    ("wsgi.Application.auth_type.setter", "arg0.__config['auth_type']");
    ("wsgi.Application.auth_algorithm.setter",
     "arg0.__config['auth_algorithm']");
    ("wsgi.Application.auth_algorithm.setter",
     "arg0.__auth_hash = AUTH_DIGEST_ALGORITHMS[arg1]");
    ("wsgi.Application.auth_qop.setter", "arg0.__config['auth_qop']");
    ("wsgi.Application.auth_timeout.setter", "arg0.__config['auth_timeout']")
  ].

Definition cw_eqb (a b : config_writer) : bool :=
  String.eqb (fst a) (fst b) && String.eqb (snd a) (snd b).

Lemma cw_eqb_eq a b : cw_eqb a b = true -> a = b.
Proof.
  destruct a as [f t], b as [f' t']. unfold cw_eqb. simpl. intros H.
  apply andb_true_iff in H. destruct H as [H1 H2].
  apply String.eqb_eq in H1. apply String.eqb_eq in H2. now subst.
Qed.

Definition config_writers_ok (ws : list config_writer) : bool :=
  forallb (fun w => existsb (cw_eqb w) allowed_config_writers) ws.

Lemma config_writers_ok_spec ws :
  config_writers_ok ws = true ->
  forall w, In w ws -> In w allowed_config_writers.
Proof.
  unfold config_writers_ok. intros H w Hin. rewrite forallb_forall in H.
  specialize (H w Hin). apply existsb_exists in H.
  destruct H as [a [Ha He]]. apply cw_eqb_eq in He. now subst.
Qed.

(* a writer is a setter or the constructor *)
Definition is_setter_or_init (f : string) : bool :=
  String.eqb f "wsgi.Application.__init__" ||
  match index 0 ".setter" f with Some _ => true | None => false end.
