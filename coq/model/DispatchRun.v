(* Instantiation of model/Dispatch.v used by the correspondence checks, and
   the encoding of its outcome into the universal value V.  No theorem
   depends on this file. *)
From Coq Require Import ZArith List Bool String.
Require Import PW.lib.Val PW.lib.Dec PW.model.Dispatch.
Import ListNotations.
Open Scope string_scope.
Open Scope list_scope.
Open Scope Z_scope.

(* http.client.responses of CPython 3.12 plus 418 (checked against the
   interpreter by the harness on every run) *)
Definition known_codes : list Z :=
  [100;101;102;103;200;201;202;203;204;205;206;207;208;226;
   300;301;302;303;304;305;307;308;
   400;401;402;403;404;405;406;407;408;409;410;411;412;413;414;415;416;417;418;
   421;422;423;424;425;426;428;429;431;451;
   500;501;502;503;504;505;506;507;508;510;511].
Definition known_status_c (z : Z) : bool := existsb (Z.eqb z) known_codes.
Definition reason_c (_ : Z) : list Z := [82].

(* class ids: 1 Base, 2 Derived(Base), 3 Unrelated, 4 ValueError, 10 Exception *)
Definition isinst_c (e : exn) (cls : Z) : bool :=
  match e with
  | EUser c => (c =? cls) || ((c =? 2) && (cls =? 1)) || (cls =? 10)
  | EExit => false
  | _ => cls =? 10
  end.
Definition builtin_c (c : Z) : bool :=
  existsb (Z.eqb c) [304; 400; 401; 403; 404; 405; 500; 501].
Definition marker (c : Z) : list Z := s2l "<page " ++ dec c ++ s2l ">".
Definition page_c (c : Z) : resp :=
  if c =? 304 then
    mkResp CNoContent 304 [xpb; (s2l "Date", s2l "<date>")] [] 0 []
  else mkResp CBase c [xpb] html 1 [marker c].

Definition cycle := request_cycle known_status_c reason_c isinst_c builtin_c page_c.

Definition exn_name (e : exn) : string :=
  match e with
  | EHttp _ | EHttpResp _ => "HTTPException"
  | EUser 1 => "Base" | EUser 2 => "Derived" | EUser 3 => "Unrelated"
  | EUser 4 => "ValueError" | EUser 5 => "FileNotFoundError"
  | EUser 6 => "TimeoutError" | EUser _ => "RuntimeError"
  | EConn => "ConnectionError" | EExit => "SystemExit"
  | ERespErr => "ResponseError" | ETypeErr => "TypeError"
  end.

Definition enc_hdrs (hs : list hdr) : V :=
  VL (map (fun kv => VL [VS (fst kv); VS (snd kv)])
          (filter (fun kv => negb (lz_eqb (fst kv) (s2l "Content-Length"))) hs)).
Definition enc_call (c : list Z * list hdr) : V :=
  VL [VS (firstn 3 (fst c)); enc_hdrs (snd c)].
Definition enc_event (e : event) : V :=
  match e with
  | EvBefore i => VL [VS (s2l "B"); VZ (Z.of_nat i)]
  | EvEndpoint => VL [VS (s2l "E")]
  | EvStatus c => VL [VS (s2l "S"); VZ c]
  | EvError c => VL [VS (s2l "X"); VZ c]
  | EvAfter i r => VL [VS (s2l "A"); VZ (Z.of_nat i); VZ (rstatus r)]
  end.
Definition enc_outcome (x : outcome * list event) : V :=
  VL [match fst x with
      | Answered em => VL [VL (map enc_call (calls em)); VY (List.concat (chunks em))]
      | Escaped e => VX (exn_name e)
      end;
      VL (map enc_event (snd x))].
Definition run_cycle (a : app) (f : facts) : V := enc_outcome (cycle a f).
Definition run_to_response (v : pyval) : V :=
  match to_response known_status_c v with
  | Val r => let em := emit reason_c r in
             VL [VL (map enc_call (calls em)); VY (List.concat (chunks em))]
  | Exc e => VX (exn_name e)
  end.
