(* Model of poorwsgi/headers.py class Headers (C14), render_negotiation and
   wsgiref.headers._formatparam, plus the reference multimap the property
   talks about.

   PART 1  the code, line by line.
     - Python str / bytes = [list Z] (code points / byte values).
     - An argument that the caller may pass where a str is expected is an
       [arg]: a str, bytes, None or an int (the hostile inputs of the check).
     - The collection's whole state is the ordered list of stored pairs.
     - A Python exception is the explicit outcome [Raised e].
     - [str.lower()] (and [bytes.lower()]) is modelled for ASCII A-Z ONLY.
       Python's str.lower() is the full Unicode mapping; the model therefore
       speaks about the code only for names without non-ASCII cased
       characters (the class requires names to be US-ASCII tokens; the check
       uses such names).
     - utf8_encode / utf8_decode are re-implementations of the CPython
       codecs ('utf-8' strict), compared differentially by the check.
     - [add_header(name, [tuples])]: the [str()] of every tuple element of a
       negotiation list is external (float repr); the model receives the
       elements already rendered as text.
     - strict=False stores whatever it is given, unchecked; the model takes
       str pairs only there ([OInitRaw]).
   PART 2  the reference multimap, written from the property text (not from
     the code): an insertion-ordered list of entries, names compared ignoring
     ASCII case, API arguments are texts which are stored as [enc text].
     With [enc := utf8_encode] this is the wire-level reference the model is
     proved to refine; with [enc := id] it is the same multimap over the
     supplied texts themselves.
   PART 3  entry points for the correspondence. *)
From Coq Require Import ZArith List Bool String.
Require Import PW.lib.Val.
Import ListNotations.
Open Scope string_scope.
Open Scope list_scope.
Open Scope Z_scope.

Definition str := list Z.
Definition state := list (str * str).

(* ------------------------------------------------------------------ UTF-8 *)

(* one code point -> its UTF-8 bytes (1-4 byte forms) *)
Definition enc1 (c : Z) : list Z :=
  if c <? 128 then [c]
  else if c <? 2048 then [192 + c / 64; 128 + c mod 64]
  else if c <? 65536 then
    [224 + c / 4096; 128 + (c / 64) mod 64; 128 + c mod 64]
  else
    [240 + c / 262144; 128 + (c / 4096) mod 64; 128 + (c / 64) mod 64;
     128 + c mod 64].

(* str.encode('utf-8') on a str without surrogates, bytes read as latin-1 *)
Definition utf8_encode (s : str) : list Z := flat_map enc1 s.

Definition is_surrogate (c : Z) : bool := (55296 <=? c) && (c <=? 57343).
(* str.encode('utf-8') raises UnicodeEncodeError exactly on surrogates *)
Definition encodable (s : str) : bool :=
  forallb (fun c => negb (is_surrogate c)) s.

Definition cont (b : Z) : bool := (128 <=? b) && (b <? 192).

Definition ocons (c : Z) (o : option (list Z)) : option (list Z) :=
  match o with Some l => Some (c :: l) | None => None end.

(* bytes.decode('utf-8') strict: rejects stray/truncated sequences,
   overlong forms, surrogates and values above U+10FFFF *)
Fixpoint utf8_decode (l : list Z) : option (list Z) :=
  match l with
  | [] => Some []
  | b0 :: r0 =>
    if b0 <? 128 then ocons b0 (utf8_decode r0)
    else if b0 <? 192 then None
    else if b0 <? 224 then
      match r0 with
      | b1 :: r1 =>
        if cont b1 then
          let c := (b0 - 192) * 64 + (b1 - 128) in
          if 128 <=? c then ocons c (utf8_decode r1) else None
        else None
      | _ => None
      end
    else if b0 <? 240 then
      match r0 with
      | b1 :: b2 :: r2 =>
        if cont b1 && cont b2 then
          let c := (b0 - 224) * 4096 + (b1 - 128) * 64 + (b2 - 128) in
          if (2048 <=? c) && negb (is_surrogate c)
          then ocons c (utf8_decode r2) else None
        else None
      | _ => None
      end
    else if b0 <? 248 then
      match r0 with
      | b1 :: b2 :: b3 :: r3 =>
        if cont b1 && cont b2 && cont b3 then
          let c := (b0 - 240) * 262144 + (b1 - 128) * 4096
                   + (b2 - 128) * 64 + (b3 - 128) in
          if (65536 <=? c) && (c <=? 1114111)
          then ocons c (utf8_decode r3) else None
        else None
      | _ => None
      end
    else None
  end.

Definition is_byte (b : Z) : bool := (0 <=? b) && (b <? 256).

(* ------------------------------------------------------ strings, helpers *)

Definition ascii_lower (c : Z) : Z :=
  if (65 <=? c) && (c <=? 90) then c + 32 else c.
(* str.lower() / bytes.lower(), ASCII only (see the header comment) *)
Definition lower (s : str) : str := map ascii_lower s.

(* s.replace(c, r) for a one-character pattern c *)
Definition replace_char (c : Z) (r : str) (s : str) : str :=
  flat_map (fun x => if x =? c then r else [x]) s.

Definition is_nil {A} (l : list A) : bool :=
  match l with [] => true | _ => false end.

(* sep.join(parts) *)
Fixpoint join (sep : str) (parts : list str) : str :=
  match parts with
  | [] => []
  | p :: rest =>
      match rest with
      | [] => p
      | _ => p ++ sep ++ join sep rest
      end
  end.

Definition s_semi_sp : str := [59; 32].          (* "; " *)
Definition s_comma_sp : str := [44; 32].         (* ", " *)
Definition s_q : str := [59; 113; 61].           (* ";q=" *)
Definition s_set_cookie : str :=
  [115; 101; 116; 45; 99; 111; 111; 107; 105; 101].   (* "set-cookie" *)

(* -------------------------------------------------------- Python values *)

Inductive arg :=
  | AStr (s : str)
  | ABytes (b : list Z)
  | ANone
  | AInt (z : Z).

Inductive exn := KeyError | TypeError | ValueError | AttributeError.

Inductive res (A : Type) :=
  | Ok (a : A)
  | Err (e : exn).
Arguments Ok {A} a.
Arguments Err {A} e.

Definition bind {A B} (r : res A) (f : A -> res B) : res B :=
  match r with Ok a => f a | Err e => Err e end.

Inductive outcome :=
  | ONone
  | OStr (s : str)
  | OBytes (b : list Z)
  | OBool (b : bool)
  | OInt (z : Z)
  | OStrs (l : list str)
  | OPairs (l : list (str * str))
  | Raised (e : exn).

(* value of add_header: a plain argument or a negotiation list/tuple whose
   elements are given as the text of str(element) *)
Inductive hval :=
  | HArg (a : arg)
  | HNego (items : list (list str)).

(* what the constructor is given *)
Inductive ctor_in (A : Type) :=
  | CNone                           (* None *)
  | CSeq (l : list (A * A))         (* list / tuple / set, iteration order *)
  | CDict (l : list (A * A))        (* dict, items() order *)
  | COther (truthy : bool).         (* any other type *)
Arguments CNone {A}.
Arguments CSeq {A} l.
Arguments CDict {A} l.
Arguments COther {A} truthy.

Inductive op :=
  | OInit (c : ctor_in arg)         (* __init__(headers, strict=True) *)
  | OInitRaw (c : ctor_in str)      (* __init__(headers, strict=False) *)
  | OAdd (name value : arg)
  | OAddHeader (name : arg) (value : hval) (params : list (str * arg))
  | OSet (name value : arg)         (* h[name] = value *)
  | ODel (name : arg)               (* del h[name] *)
  | OSetdefault (name value : arg)
  | OGet (name : arg)               (* Mapping.get(name) *)
  | OGetAll (name : arg)
  | OContains (name : arg)          (* name in h  (Mapping.__contains__) *)
  | OGetItem (name : arg)           (* h[name] *)
  | OLen
  | OItems                          (* items(), also list(h) *)
  | ONames                          (* names(), keys() *)
  | OValues.

(* ------------------------------------------------- PART 1: the code *)

(* Headers.iso88591 *)
Definition iso88591 (value : arg) : res str :=
  match value with
  | AStr s => if encodable s then Ok (utf8_encode s) else Err ValueError
  | _ => Err TypeError
  end.

(* Headers.utf8 *)
Definition utf8 (value : str) : str :=
  if forallb is_byte value then
    match utf8_decode value with Some s => s | None => value end
  else value.

(* name.lower() in add: str and bytes have it, None and int do not; it is
   evaluated only after [name in self] succeeded, i.e. with a str *)
Definition lower_arg (a : arg) : res arg :=
  match a with
  | AStr s => Ok (AStr (lower s))
  | ABytes b => Ok (ABytes (lower b))
  | _ => Err AttributeError
  end.

(* Headers.iso88591(name).lower() : type check and transcoding first, case
   folding (of the transcoded name) after *)
Definition norm_name (name : arg) : res str :=
  bind (iso88591 name) (fun w => Ok (lower w)).

(* for k, val in self.__headers: if k.lower() == name: return val *)
Fixpoint find_first (name : str) (s : state) : option str :=
  match s with
  | [] => None
  | (k, v) :: r => if lz_eqb (lower k) name then Some v else find_first name r
  end.

Definition getitem (s : state) (name : arg) : res str :=
  bind (norm_name name) (fun n =>
    match find_first n s with
    | Some v => Ok v
    | None => Err KeyError
    end).

(* Mapping.get: try: return self[key]  except KeyError: return None *)
Definition mapping_get (s : state) (name : arg) : res (option str) :=
  match getitem s name with
  | Ok v => Ok (Some v)
  | Err KeyError => Ok None
  | Err e => Err e
  end.

(* Mapping.__contains__ *)
Definition contains (s : state) (name : arg) : res bool :=
  match getitem s name with
  | Ok _ => Ok true
  | Err KeyError => Ok false
  | Err e => Err e
  end.

Definition delitem (s : state) (name : arg) : res state :=
  bind (norm_name name) (fun n =>
    Ok (filter (fun kv => negb (lz_eqb (lower (fst kv)) n)) s)).

Definition get_all (s : state) (name : arg) : res (list str) :=
  bind (norm_name name) (fun n =>
    Ok (map snd (filter (fun kv => lz_eqb (lower (fst kv)) n) s))).

(* wsgiref.headers._formatparam(param, value, quote=1) with a str value *)
Definition escape (value : str) : str :=
  replace_char 34 [92; 34] (replace_char 92 [92; 92] value).
Definition formatparam (param value : str) : str :=
  if negb (is_nil value) then param ++ [61; 34] ++ escape value ++ [34]
  else param.

(* render_negotiation *)
Definition render_negotiation (items : list (list str)) : str :=
  join s_comma_sp (map (join s_q) items).

(* the kwargs loop of add_header *)
Fixpoint params_parts (params : list (str * arg)) : res (list str) :=
  match params with
  | [] => Ok []
  | (k, val) :: rest =>
      bind (iso88591 (AStr k)) (fun k' =>
        bind (match val with
              | ANone => Ok (replace_char 95 [45] k')
              | _ => bind (iso88591 val) (fun v' =>
                       Ok (formatparam (replace_char 95 [45] k') v'))
              end) (fun part =>
          bind (params_parts rest) (fun more => Ok (part :: more))))
  end.

Definition header_parts (value : hval) (params : list (str * arg))
  : res (list str) :=
  match value with
  | HNego items =>
      bind (iso88591 (AStr (render_negotiation items))) (fun x => Ok [x])
  | HArg v =>
      bind (match v with
            | ANone => Ok []
            | _ => bind (iso88591 v) (fun x => Ok [x])
            end) (fun first =>
        bind (params_parts params) (fun more => Ok (first ++ more)))
  end.

Definition add_header (s : state) (name : arg) (value : hval)
           (params : list (str * arg)) : state * outcome :=
  match header_parts value params with
  | Err e => (s, Raised e)
  | Ok parts =>
      if is_nil parts then (s, Raised ValueError)
      else match iso88591 name with
           | Err e => (s, Raised e)
           | Ok n => (s ++ [(n, join s_semi_sp parts)], ONone)
           end
  end.

(* name.lower() != "set-cookie" *)
Definition not_set_cookie (name : arg) : res bool :=
  bind (lower_arg name) (fun l =>
    match l with
    | AStr t => Ok (negb (lz_eqb t s_set_cookie))
    | _ => Ok true                 (* bytes never equal a str *)
    end).

(* if name in self and name.lower() != "set-cookie": raise KeyError *)
Definition add (s : state) (name value : arg) : state * outcome :=
  match contains s name with
  | Err e => (s, Raised e)
  | Ok false => add_header s name (HArg value) []
  | Ok true =>
      match not_set_cookie name with
      | Err e => (s, Raised e)
      | Ok true => (s, Raised KeyError)
      | Ok false => add_header s name (HArg value) []
      end
  end.

(* old = self.__headers; del self[name];
   try: self.add_header(name, value)
   except Exception: self.__headers = old; raise *)
Definition setitem (s : state) (name value : arg) : state * outcome :=
  match delitem s name with
  | Err e => (s, Raised e)
  | Ok s1 =>
      match add_header s1 name (HArg value) [] with
      | (_, Raised e) => (s, Raised e)
      | r => r
      end
  end.

Definition out_of_arg (a : arg) : outcome :=
  match a with
  | AStr s => OStr s
  | ABytes b => OBytes b
  | ANone => ONone
  | AInt z => OInt z
  end.

Definition setdefault (s : state) (name value : arg) : state * outcome :=
  match mapping_get s name with
  | Err e => (s, Raised e)
  | Ok (Some v) => (s, OStr v)
  | Ok None =>
      match add_header s name (HArg value) [] with
      | (s1, ONone) => (s1, out_of_arg value)
      | r => r
      end
  end.

Fixpoint iso_pairs (l : list (arg * arg)) : res state :=
  match l with
  | [] => Ok []
  | (k, v) :: rest =>
      bind (iso88591 k) (fun k' =>
        bind (iso88591 v) (fun v' =>
          bind (iso_pairs rest) (fun more => Ok ((k', v') :: more))))
  end.

(* headers = headers or [] ; isinstance dispatch *)
Definition init_strict (c : ctor_in arg) : res state :=
  match c with
  | CNone => Ok []
  | CSeq l => iso_pairs l
  | CDict l => iso_pairs l
  | COther truthy => if truthy then Err TypeError else Ok []
  end.

Definition init_raw (c : ctor_in str) : res state :=
  match c with
  | CNone => Ok []
  | CSeq l => Ok l
  | CDict l => Ok l
  | COther truthy => if truthy then Err TypeError else Ok []
  end.

Definition of_res {A} (s : state) (r : res A) (f : A -> state * outcome)
  : state * outcome :=
  match r with Ok a => f a | Err e => (s, Raised e) end.

Definition step (s : state) (o : op) : state * outcome :=
  match o with
  | OInit c => of_res s (init_strict c) (fun s1 => (s1, ONone))
  | OInitRaw c => of_res s (init_raw c) (fun s1 => (s1, ONone))
  | OAdd n v => add s n v
  | OAddHeader n v ps => add_header s n v ps
  | OSet n v => setitem s n v
  | ODel n => of_res s (delitem s n) (fun s1 => (s1, ONone))
  | OSetdefault n v => setdefault s n v
  | OGet n => of_res s (mapping_get s n) (fun r =>
                (s, match r with Some v => OStr v | None => ONone end))
  | OGetAll n => of_res s (get_all s n) (fun l => (s, OStrs l))
  | OContains n => of_res s (contains s n) (fun b => (s, OBool b))
  | OGetItem n => of_res s (getitem s n) (fun v => (s, OStr v))
  | OLen => (s, OInt (Z.of_nat (List.length s)))
  | OItems => (s, OPairs s)
  | ONames => (s, OStrs (map fst s))
  | OValues => (s, OStrs (map snd s))
  end.

(* state and outcome after every operation of a history *)
Fixpoint run (s : state) (ops : list op) : list (state * outcome) :=
  match ops with
  | [] => []
  | o :: rest => let r := step s o in r :: run (fst r) rest
  end.

(* ------------------------------------- PART 2: the reference multimap *)

Inductive soutcome :=
  | SRet (o : outcome)      (* returns normally with this value *)
  | SKeyError               (* absent name / refused duplicate *)
  | SRejected.              (* argument is not acceptable text *)

(* what "rejected with a TypeError/ValueError" etc. mean for the code *)
Definition out_rel (m : outcome) (s : soutcome) : Prop :=
  match s with
  | SRet o => m = o
  | SKeyError => m = Raised KeyError
  | SRejected => m = Raised TypeError \/ m = Raised ValueError
  end.

(* names are equal ignoring ASCII case *)
Definition same_name (a b : str) : bool := lz_eqb (lower a) (lower b).

(* an argument is acceptable iff it is a str that UTF-8 can encode *)
Definition text (a : arg) : option str :=
  match a with
  | AStr s => if encodable s then Some s else None
  | _ => None
  end.
Definition text_ok (a : arg) : bool :=
  match text a with Some _ => true | None => false end.

Fixpoint all_some {A} (l : list (option A)) : option (list A) :=
  match l with
  | [] => Some []
  | Some a :: r => match all_some r with Some r' => Some (a :: r') | None => None end
  | None :: _ => None
  end.

(* text of one parameter: name with '_' -> '-', value quoted and escaped *)
Definition param_text (k : str) (v : option str) : str :=
  let k' := replace_char 95 [45] k in
  match v with
  | None => k'
  | Some t => if is_nil t then k' else k' ++ [61; 34] ++ escape t ++ [34]
  end.

Definition param_texts (params : list (str * arg)) : option (list str) :=
  all_some (map (fun kv =>
    match text (AStr (fst kv)) with
    | None => None
    | Some k =>
        match snd kv with
        | ANone => Some (param_text k None)
        | a => match text a with
               | Some t => Some (param_text k (Some t))
               | None => None
               end
        end
    end) params).

(* the text of the header value that add_header(name, value, **params)
   is asked to store; None = some argument is not acceptable text *)
Definition value_texts (value : hval) (params : list (str * arg))
  : option (list str) :=
  match value with
  | HNego items =>
      match text (AStr (render_negotiation items)) with
      | Some t => Some [t]
      | None => None
      end
  | HArg v =>
      match (match v with
             | ANone => Some []
             | a => match text a with Some t => Some [t] | None => None end
             end), param_texts params with
      | Some first, Some more => Some (first ++ more)
      | _, _ => None
      end
  end.

Section Spec.
  (* how a supplied text is stored *)
  Variable enc : str -> str.

  Definition entries_of (k : str) (m : state) : state :=
    filter (fun kv => same_name (fst kv) k) m.
  Definition others (k : str) (m : state) : state :=
    filter (fun kv => negb (same_name (fst kv) k)) m.
  Definition has (k : str) (m : state) : bool :=
    existsb (fun kv => same_name (fst kv) k) m.

  Definition spec_add_header (m : state) (name : arg) (value : hval)
             (params : list (str * arg)) : state * soutcome :=
    match value_texts value params, text name with
    | Some (p :: ps), Some n =>
        (m ++ [(enc n, enc (join s_semi_sp (p :: ps)))], SRet ONone)
    | _, _ => (m, SRejected)         (* bad argument or "empty header" *)
    end.

  Definition with_name (m : state) (name : arg)
             (f : str -> state * soutcome) : state * soutcome :=
    match text name with
    | Some t => f t
    | None => (m, SRejected)
    end.

  Fixpoint pair_texts (l : list (arg * arg)) : option (list (str * str)) :=
    match l with
    | [] => Some []
    | (k, v) :: r =>
        match text k, text v, pair_texts r with
        | Some k', Some v', Some r' => Some ((k', v') :: r')
        | _, _, _ => None
        end
    end.

  Definition spec_init (m : state) (c : ctor_in arg) : state * soutcome :=
    match c with
    | CNone => ([], SRet ONone)
    | CSeq l | CDict l =>
        match pair_texts l with
        | Some ps => (map (fun kv => (enc (fst kv), enc (snd kv))) ps, SRet ONone)
        | None => (m, SRejected)
        end
    | COther truthy => if truthy then (m, SRejected) else ([], SRet ONone)
    end.

  Definition spec_init_raw (m : state) (c : ctor_in str) : state * soutcome :=
    match c with
    | CNone => ([], SRet ONone)
    | CSeq l | CDict l => (l, SRet ONone)
    | COther truthy => if truthy then (m, SRejected) else ([], SRet ONone)
    end.

  Definition spec_step (m : state) (o : op) : state * soutcome :=
    match o with
    | OInit c => spec_init m c
    | OInitRaw c => spec_init_raw m c
    | OAdd n v =>
        with_name m n (fun t =>
          if negb (same_name t s_set_cookie) && has (enc t) m
          then (m, SKeyError)                  (* duplicates refused ... *)
          else spec_add_header m n (HArg v) [])   (* ... except Set-Cookie *)
    | OAddHeader n v ps => spec_add_header m n v ps
    | OSet n v =>
        with_name m n (fun t =>
          match text v with
          | Some tv => (others (enc t) m ++ [(enc t, enc tv)], SRet ONone)
          | None => (m, SRejected)
          end)
    | ODel n => with_name m n (fun t => (others (enc t) m, SRet ONone))
    | OSetdefault n v =>
        with_name m n (fun t =>
          match entries_of (enc t) m with
          | kv :: _ => (m, SRet (OStr (snd kv)))
          | [] => match text v with
                  | Some tv => (m ++ [(enc t, enc tv)], SRet (OStr tv))
                  | None => (m, SRejected)
                  end
          end)
    | OGet n =>
        with_name m n (fun t =>
          (m, SRet (match entries_of (enc t) m with
                    | kv :: _ => OStr (snd kv)
                    | [] => ONone
                    end)))
    | OGetAll n =>
        with_name m n (fun t => (m, SRet (OStrs (map snd (entries_of (enc t) m)))))
    | OContains n => with_name m n (fun t => (m, SRet (OBool (has (enc t) m))))
    | OGetItem n =>
        with_name m n (fun t =>
          (m, match entries_of (enc t) m with
              | kv :: _ => SRet (OStr (snd kv))
              | [] => SKeyError
              end))
    | OLen => (m, SRet (OInt (Z.of_nat (List.length m))))
    | OItems => (m, SRet (OPairs m))
    | ONames => (m, SRet (OStrs (map fst m)))
    | OValues => (m, SRet (OStrs (map snd m)))
    end.

  Fixpoint srun (m : state) (ops : list op) : list (state * soutcome) :=
    match ops with
    | [] => []
    | o :: rest => let r := spec_step m o in r :: srun (fst r) rest
    end.
End Spec.

Definition strict_op (o : op) : bool :=
  match o with OInitRaw _ => false | _ => true end.

(* Python str: code points 0..0x10FFFF; Unicode scalar values *)
Definition is_cp (c : Z) : bool := (0 <=? c) && (c <=? 1114111).
Definition is_scalar (c : Z) : bool := is_cp c && negb (is_surrogate c).
Definition latin1 (s : str) : bool := forallb is_byte s.
Definition latin1_state (m : state) : bool :=
  forallb (fun kv => latin1 (fst kv) && latin1 (snd kv)) m.

Definition arg_cps (a : arg) : bool :=
  match a with AStr s => forallb is_cp s | _ => true end.
Definition hval_cps (v : hval) : bool :=
  match v with
  | HArg a => arg_cps a
  | HNego items => forallb (forallb (forallb is_cp)) items
  end.
Definition ctor_cps (c : ctor_in arg) : bool :=
  match c with
  | CSeq l | CDict l => forallb (fun kv => arg_cps (fst kv) && arg_cps (snd kv)) l
  | _ => true
  end.
(* every str inside the operation is a Python str; strict=False input is
   latin-1 (it comes from the WSGI environ) *)
Definition op_wf (o : op) : bool :=
  match o with
  | OInit c => ctor_cps c
  | OInitRaw c =>
      match c with CSeq l | CDict l => latin1_state l | _ => true end
  | OAdd n v | OSet n v | OSetdefault n v => arg_cps n && arg_cps v
  | OAddHeader n v ps =>
      arg_cps n && hval_cps v &&
      forallb (fun kv => forallb is_cp (fst kv) && arg_cps (snd kv)) ps
  | ODel n | OGet n | OGetAll n | OContains n | OGetItem n => arg_cps n
  | _ => true
  end.

(* ------------------------------------------- PART 3: correspondence *)

Definition exn_name (e : exn) : string :=
  match e with
  | KeyError => "KeyError"
  | TypeError => "TypeError"
  | ValueError => "ValueError"
  | AttributeError => "AttributeError"
  end.

Definition enc_pairs (l : list (str * str)) : V :=
  VL (map (fun kv => VL [VS (fst kv); VS (snd kv)]) l).

Definition enc_outcome (o : outcome) : V :=
  match o with
  | ONone => VN
  | OStr s => VS s
  | OBytes b => VY b
  | OBool b => VB b
  | OInt z => VZ z
  | OStrs l => VL (map VS l)
  | OPairs l => enc_pairs l
  | Raised e => VX (exn_name e)
  end.

(* outcome of every step of a history run on Headers() *)
Definition run_ops (ops : list op) : V :=
  VL (map (fun r => enc_outcome (snd r)) (run [] ops)).

Definition enc_res_str (r : res str) : V :=
  match r with Ok s => VS s | Err e => VX (exn_name e) end.
Definition run_iso (a : arg) : V := enc_res_str (iso88591 a).
Definition run_utf8 (s : str) : V := VS (utf8 s).
(* utf8(iso88591(s)) *)
Definition run_roundtrip (s : str) : V :=
  match iso88591 (AStr s) with
  | Ok w => VS (utf8 w)
  | Err e => VX (exn_name e)
  end.
