(* Model of poorwsgi/session.py: hidden, PoorSession.{write,load,destroy,header}
   (C13) and of the part of http.cookies.Morsel that renders the attributes.

   bytes / str = list Z.  [K] is sha512(secret).digest() (64 bytes; the hash is
   outside the model, the harness passes the digest).  The codecs of the
   pipeline are functions returning [option] ([None] = the Python function
   raised):
     dumps      = json.dumps(data).encode("utf-8")      (hidden() encodes str)
     loads      = json.loads(bytearray)
     compress   = cps.compress(b, 9)     decompress = cps.decompress(b)
     b64        = b64encode(b).decode()  unb64      = b64decode(raw.encode())
   [J] is the type of Python objects json works with; [is_dict] is
   isinstance(.., dict).

   The morsel is the attribute map of self.cookie[sid] (only the attributes
   the session ever touches; "" = unset).  An int expires value [z] is
   rendered by Morsel as the date of now+z: the model keeps [z]. *)
From Coq Require Import ZArith List Bool String Ascii.
Require Import PW.lib.Val.
Import ListNotations.
Open Scope string_scope.
Open Scope list_scope.
Open Scope Z_scope.

(* ------------------------------------------------------------ hidden *)
(* passwd[i % passlen] *)
Definition key_at (K : list Z) (i : Z) : Z :=
  nth (Z.to_nat (i mod Z.of_nat (List.length K))) K 0.

(* for i, val in enumerate(text): retval.append(val ^ passwd[i % passlen]) *)
Fixpoint hidden_from (K : list Z) (i : Z) (x : list Z) : list Z :=
  match x with
  | [] => []
  | v :: x' => Z.lxor v (key_at K i) :: hidden_from K (i + 1) x'
  end.

Definition hidden (K x : list Z) : list Z := hidden_from K 0 x.

Definition byte (b : Z) : Prop := 0 <= b < 256.

(* ------------------------------------------------------------ outcomes *)
Inductive outcome (A : Type) :=
  | Ok (a : A)
  | Raised (e : string).
Arguments Ok {A} a.
Arguments Raised {A} e.

Definition SessionError : string := "SessionError".
(* what write() lets through when a codec raises (TypeError of dumps ...) *)
Definition OtherError : string := "Exception".

Record codec (J : Type) := {
  is_dict : J -> bool;
  dumps : J -> option (list Z);
  loads : list Z -> option J;
  compress : list Z -> option (list Z);
  decompress : list Z -> option (list Z);
  b64 : list Z -> option (list Z);
  unb64 : list Z -> option (list Z)
}.
Arguments is_dict {J} c. Arguments dumps {J} c. Arguments loads {J} c.
Arguments compress {J} c. Arguments decompress {J} c.
Arguments b64 {J} c. Arguments unb64 {J} c.

Definition bind {A B} (o : option A) (f : A -> option B) : option B :=
  match o with Some a => f a | None => None end.

Definition nonempty (s : list Z) : bool :=
  match s with [] => false | _ => true end.

(* the codec laws used by the theorems (hypotheses, never axioms) *)
Definition codec_laws {J} (C : codec J) : Prop :=
  (forall y r, b64 C y = Some r -> unb64 C r = Some y) /\
  (forall t z, compress C t = Some z -> decompress C z = Some t) /\
  (forall y r, b64 C y = Some r -> y <> [] -> r <> []) /\
  (forall t z, compress C t = Some z -> t <> [] -> z <> []).

(* compress(bytes, 9) and b64encode(bytes) do not raise *)
Definition codec_total {J} (C : codec J) : Prop :=
  (forall t, compress C t <> None) /\ (forall y, b64 C y <> None).

(* json round trip of one value: dumps succeeds with a non-empty text that
   loads back to the value *)
Definition json_roundtrips {J} (C : codec J) (d : J) : Prop :=
  exists t, dumps C d = Some t /\ t <> [] /\ loads C t = Some d.

Section Session.
  Variable K : list Z.
  Variable J : Type.
  Variable C : codec J.

  (* ---------------------------------------------------------- pipeline *)
  (* raw = b64encode(cps.compress(hidden(dumps(data), key), 9)) ; .decode() *)
  Definition write_value (d : J) : option (list Z) :=
    bind (dumps C d) (fun t =>
    bind (compress C (hidden K t)) (fun z => b64 C z)).

  (* loads(hidden(cps.decompress(b64decode(raw.encode())), key)) ;
     None = some step raised (all caught by [except Exception]) *)
  Definition decode (raw : list Z) : option J :=
    bind (unb64 C raw) (fun z =>
    bind (decompress C z) (fun y => loads C (hidden K y))).

  Inductive loaded :=
    | Kept                 (* [if raw:] false, data untouched *)
    | Restored (j : J).

  (* load() on the cookie value [raw] *)
  Definition load_value (raw : list Z) : outcome loaded :=
    if nonempty raw then
      match decode raw with
      | None => Raised SessionError              (* "Bad session data." *)
      | Some j => if is_dict C j then Ok (Restored j)
                  else Raised SessionError       (* "... is not dictionary!" *)
      end
    else Ok Kept.

  (* ---------------------------------------------------------- state *)
  (* constructor arguments; domain/path/same_site '' (or False) = falsy *)
  Record config := mkcfg {
    c_expires : Z;
    c_max_age : option Z;
    c_domain : list Z;
    c_path : list Z;
    c_secure : bool;
    c_same_site : list Z
  }.

  Record morsel := mkmorsel {
    m_value : list Z;
    m_expires : option Z;
    m_max_age : option Z;
    m_domain : list Z;
    m_path : list Z;
    m_secure : bool;
    m_httponly : bool;
    m_samesite : list Z
  }.

  Definition morsel0 : morsel := mkmorsel [] None None [] [] false false [].

  (* __expires and __max_age are reassigned by destroy() *)
  Record state := mkstate {
    s_expires : Z;
    s_max_age : option Z;
    s_data : J;
    s_m : morsel
  }.

  Definition init (cfg : config) (d : J) : state :=
    mkstate (c_expires cfg) (c_max_age cfg) d morsel0.

  (* ---------------------------------------------------------- write *)
  Definition write_attrs (cfg : config) (st : state) (raw : list Z) : morsel :=
    let m := s_m st in
    mkmorsel
      raw
      (if negb (s_expires st =? 0) then Some (s_expires st) else m_expires m)
      (match s_max_age st with Some a => Some a | None => m_max_age m end)
      (if nonempty (c_domain cfg) then c_domain cfg else m_domain m)
      (if nonempty (c_path cfg) then c_path cfg else m_path m)
      (if c_secure cfg then true else m_secure m)
      true
      (if nonempty (c_same_site cfg) then c_same_site cfg else m_samesite m).

  Definition write (cfg : config) (st : state) : outcome (state * list Z) :=
    match write_value (s_data st) with
    | None => Raised OtherError
    | Some raw =>
        Ok (mkstate (s_expires st) (s_max_age st) (s_data st)
                    (write_attrs cfg st raw), raw)
    end.

  (* ---------------------------------------------------------- destroy *)
  Definition destroy (cfg : config) (st : state) : state :=
    let m := s_m st in
    mkstate
      (-1)
      (match s_max_age st with Some _ => Some (-1) | None => None end)
      (s_data st)
      (mkmorsel (m_value m) (Some (-1))
                (match s_max_age st with
                 | Some _ => Some (-1) | None => m_max_age m end)
                (m_domain m) (m_path m)
                (if c_secure cfg then true else m_secure m)
                true (m_samesite m)).

  (* ---------------------------------------------------------- load *)
  Inductive load_obs := LSkipped | LLoaded | LRaised (e : string).

  (* [c] = None: cookies is no SimpleCookie or has no such name.
     self.data is assigned before the dictionary test. *)
  Definition load (st : state) (c : option (list Z)) : state * load_obs :=
    match c with
    | None => (st, LSkipped)
    | Some raw =>
        if nonempty raw then
          match decode raw with
          | None => (st, LRaised SessionError)
          | Some j =>
              (mkstate (s_expires st) (s_max_age st) j (s_m st),
               if is_dict C j then LLoaded else LRaised SessionError)
          end
        else (st, LSkipped)
    end.

  (* ---------------------------------------------------------- header *)
  Inductive aname :=
    ADomain | AExpires | AHttpOnly | AMaxAge | APath | ASameSite | ASecure.
  Inductive aval := AInt (z : Z) | AStr (s : list Z) | AFlag.

  Definition aname_eqb (a b : aname) : bool :=
    match a, b with
    | ADomain, ADomain | AExpires, AExpires | AHttpOnly, AHttpOnly
    | AMaxAge, AMaxAge | APath, APath | ASameSite, ASameSite
    | ASecure, ASecure => true
    | _, _ => false
    end.

  (* Morsel.OutputString: sorted(items()), value == "" skipped, flags *)
  Definition render (m : morsel) : list (aname * aval) :=
    (if nonempty (m_domain m) then [(ADomain, AStr (m_domain m))] else []) ++
    (match m_expires m with Some z => [(AExpires, AInt z)] | None => [] end) ++
    (if m_httponly m then [(AHttpOnly, AFlag)] else []) ++
    (match m_max_age m with Some z => [(AMaxAge, AInt z)] | None => [] end) ++
    (if nonempty (m_path m) then [(APath, AStr (m_path m))] else []) ++
    (if nonempty (m_samesite m)
     then [(ASameSite, AStr (m_samesite m))] else []) ++
    (if m_secure m then [(ASecure, AFlag)] else []).

  Fixpoint attr (n : aname) (out : list (aname * aval)) : option aval :=
    match out with
    | [] => None
    | (k, v) :: out' => if aname_eqb n k then Some v else attr n out'
    end.

  (* header(): self.write() first, then the cookie is rendered:
     (cookie value, attributes) *)
  Definition header (cfg : config) (st : state)
    : outcome (state * (list Z * list (aname * aval))) :=
    match write cfg st with
    | Raised e => Raised e
    | Ok (st', raw) => Ok (st', (m_value (s_m st'), render (s_m st')))
    end.

  (* ---------------------------------------------------------- histories *)
  Inductive op :=
    | Write | Destroy | Load (c : option (list Z)) | Header | SetData (d : J).

  Inductive obs :=
    | OWrote (raw : list Z)
    | ODone
    | OLoad (l : load_obs)
    | OHeader (raw : list Z) (attrs : list (aname * aval))
    | ORaised (e : string).

  (* an operation that raises leaves the object as it was at that point *)
  Definition step (cfg : config) (st : state) (o : op) : state * obs :=
    match o with
    | Write => match write cfg st with
               | Ok (st', raw) => (st', OWrote raw)
               | Raised e => (st, ORaised e)
               end
    | Destroy => (destroy cfg st, ODone)
    | Load c => let (st', l) := load st c in (st', OLoad l)
    | Header => match header cfg st with
                | Ok (st', (raw, attrs)) => (st', OHeader raw attrs)
                | Raised e => (st, ORaised e)
                end
    | SetData d => (mkstate (s_expires st) (s_max_age st) d (s_m st), ODone)
    end.

  Definition run (cfg : config) (hist : list op) (st : state) : state :=
    fold_left (fun s o => fst (step cfg s o)) hist st.

  Fixpoint trace (cfg : config) (hist : list op) (st : state) : list obs :=
    match hist with
    | [] => []
    | o :: hist' => let (st', b) := step cfg st o in b :: trace cfg hist' st'
    end.

  Definition is_destroy (o : op) : bool :=
    match o with Destroy => true | _ => false end.

  (* what a written cookie carries for current expires [e] / max_age [ma] *)
  Definition expected (cfg : config) (e : Z) (ma : option Z)
    : list (aname * aval) :=
    (if nonempty (c_domain cfg) then [(ADomain, AStr (c_domain cfg))] else []) ++
    (if negb (e =? 0) then [(AExpires, AInt e)] else []) ++
    [(AHttpOnly, AFlag)] ++
    (match ma with Some z => [(AMaxAge, AInt z)] | None => [] end) ++
    (if nonempty (c_path cfg) then [(APath, AStr (c_path cfg))] else []) ++
    (if nonempty (c_same_site cfg)
     then [(ASameSite, AStr (c_same_site cfg))] else []) ++
    (if c_secure cfg then [(ASecure, AFlag)] else []).
End Session.

Arguments Kept {J}.
Arguments Restored {J} j.
Arguments Write {J}.
Arguments Destroy {J}.
Arguments Load {J} c.
Arguments Header {J}.
Arguments SetData {J} d.

(* ------------------------------------------------------------------------
   correspondence entry points.  The harness records every call the real
   code makes to json / base64 / the compress object and passes the records
   as finite tables; a value missing from a table counts as "raised".
   J = canonical JSON text of the object (sort_keys), a dict starts with '{'. *)
Definition tbl := list (list Z * option (list Z)).

Fixpoint lookup (t : tbl) (x : list Z) : option (list Z) :=
  match t with
  | [] => None
  | (k, v) :: t' => if lz_eqb k x then v else lookup t' x
  end.

Definition text_is_dict (j : list Z) : bool :=
  match j with 123 :: _ => true | _ => false end.

Definition tcodec (td tl tc tdc tb tub : tbl) : codec (list Z) :=
  Build_codec (list Z) text_is_dict (lookup td) (lookup tl) (lookup tc)
              (lookup tdc) (lookup tb) (lookup tub).

Definition enc_aname (n : aname) : V :=
  VS (s2l match n with
          | ADomain => "Domain" | AExpires => "expires"
          | AHttpOnly => "HttpOnly" | AMaxAge => "Max-Age" | APath => "Path"
          | ASameSite => "SameSite" | ASecure => "Secure"
          end).
Definition enc_aval (v : aval) : V :=
  match v with AInt z => VZ z | AStr s => VS s | AFlag => VB true end.
Definition enc_attrs (l : list (aname * aval)) : V :=
  VL (map (fun p => VL [enc_aname (fst p); enc_aval (snd p)]) l).

Definition enc_obs (o : obs) : V :=
  match o with
  | OWrote raw => VL [VS (s2l "wrote"); VS raw]
  | ODone => VN
  | OLoad LSkipped => VS (s2l "skipped")
  | OLoad LLoaded => VS (s2l "loaded")
  | OLoad (LRaised e) => VX e
  | OHeader raw attrs => VL [VS (s2l "header"); VS raw; enc_attrs attrs]
  | ORaised e => VX e
  end.

(* byte strings are written by the harness as lower-case hex text (one
   token to parse instead of one per byte) *)
Definition hexval (c : ascii) : Z :=
  let n := Z.of_N (N_of_ascii c) in if n <? 58 then n - 48 else n - 87.
Fixpoint hx (s : string) : list Z :=
  match s with
  | String a (String b s') => 16 * hexval a + hexval b :: hx s'
  | _ => []
  end.

Definition run_hidden (K x : list Z) : V := VY (hidden K x).

(* observations of the history followed by the final self.data *)
Definition run_hist (K : list Z) (C : codec (list Z)) (cfg : config)
           (d0 : list Z) (hist : list (op (list Z))) : V :=
  VL (map enc_obs (trace K (list Z) C cfg hist (init (list Z) cfg d0)) ++
      [VS (s_data (list Z) (run K (list Z) C cfg hist (init (list Z) cfg d0)))]).
