(* Model of the byte-range and Content-Length machinery of
   poorwsgi/response.py (C06, C07):
     BaseResponse.make_partial, the range block of __start_response__,
     Response.__init__/write/data/__end_of_response__ (io.BytesIO semantics),
     FileObjResponse (size, position), GeneratorResponse.__range_generator__.
   Integers are Z, bytes are list Z, Python None is option. *)
From Coq Require Import ZArith List Bool String.
Require Import PW.lib.Val PW.lib.Dec.
Import ListNotations.
Open Scope string_scope.
Open Scope list_scope.
Open Scope Z_scope.

Definition zlen {A} (l : list A) : Z := Z.of_nat (List.length l).
Definition ztake {A} (n : Z) (l : list A) : list A := firstn (Z.to_nat n) l.
Definition zdrop {A} (n : Z) (l : list A) : list A := skipn (Z.to_nat n) l.

(* Python data[s:e] for integers s, e (negative = from the end) *)
Definition norm_idx (i len : Z) : Z :=
  if i <? 0 then Z.max 0 (i + len) else Z.min i len.
Definition pyslice {A} (l : list A) (s e : Z) : list A :=
  let n := zlen l in
  let s' := norm_idx s n in
  let e' := norm_idx e n in
  ztake (e' - s') (zdrop s' l).

Definition range := (option Z * option Z)%type.

(* ---- make_partial: inconsistent ranges dropped, duplicates dropped *)
Definition oz_eqb (a b : option Z) : bool :=
  match a, b with
  | Some x, Some y => x =? y
  | None, None => true
  | _, _ => false
  end.
Definition range_eqb (a b : range) : bool :=
  oz_eqb (fst a) (fst b) && oz_eqb (snd a) (snd b).
Definition inconsistent (r : range) : bool :=
  match r with (Some s, Some e) => e <? s | _ => false end.
Fixpoint make_partial_from (acc : list range) (rs : list range) : list range :=
  match rs with
  | [] => acc
  | r :: rs' =>
      if inconsistent r then make_partial_from acc rs'
      else if existsb (range_eqb r) acc then make_partial_from acc rs'
      else make_partial_from (acc ++ [r]) rs'
  end.
Definition make_partial (rs : list range) : list range := make_partial_from [] rs.

(* ---- the range block of __start_response__ (status 200, units bytes) *)
Inductive window :=
  | W206 (start : Z) (end_ : option Z)      (* self._start, self._end *)
         (cr_start : Z) (cr_end : Z)         (* Content-Range first-last *)
         (newlen : Z)                        (* self._content_length *)
  | W416 (cr_start cr_end : option Z).

(* Python [x and y] on ints used as conditions: truthy = non-zero *)
Definition truthy (z : Z) : bool := negb (z =? 0).

(* None in arithmetic raises TypeError in Python; the cases where that could
   happen ((None,None), or a suffix with L = 0 reaching start arithmetic) are
   shown unreachable by the branch structure: they fall to W416 before any
   arithmetic on None.  [Z0] placeholders below are never used. *)
Definition range_window (L : Z) (r : range) : window :=
  let '(s0, e0) := r in
  (* if self._start is None and self._content_length: *)
  let '(s1, e1) :=
    match s0 with
    | None =>
        if truthy L then
          let e := Z.min L (match e0 with Some e => e | None => 0 end) in
          (Some (L - e), None)
        else (s0, e0)
    | Some _ => (s0, e0)
    end in
  let cr_end0 := L - 1 in
  match e1 with
  | Some e =>
      if truthy L then
        (* if self._end is not None and self._content_length: *)
        let e' := Z.min (L - 1) e in
        let s := match s1 with Some s => s | None => 0 end in
        let n := Z.max 0 (e' - s + 1) in
        if truthy n then W206 s (Some e') s e' n else W416 s0 e0
      else W416 s0 e0            (* L = 0: length stays 0 *)
  | None =>
      if truthy L then
        (* elif self._content_length: *)
        let s := match s1 with Some s => s | None => 0 end in
        let n := Z.max 0 (L - s) in
        if truthy n then W206 s None s cr_end0 n else W416 s0 e0
      else W416 s0 e0
  end.

(* ---- rendering *)
Definition show_oz (o : option Z) : list Z :=
  match o with Some z => dec z | None => s2l "None" end.
Definition content_range_text (s e : list Z) (full : Z) : list Z :=
  s2l "bytes " ++ s ++ s2l "-" ++ e ++ s2l "/" ++ dec full.

Record answer := {
  status : Z;
  content_range : option (list Z);
  content_length : option (list Z);   (* header value, if emitted *)
  body : list Z }.

(* header emission common to all classes: [clen] is self.content_length after
   the range block; Content-Length is added iff it is truthy (no header of
   that name is present initially in the model) *)
Definition clen_header (n : Z) : option (list Z) :=
  if truthy n then Some (dec n) else None.

Definition answer_416 (L : Z) (s e : option Z) : answer :=
  {| status := 416;
     content_range := Some (content_range_text (show_oz s) (show_oz e) L);
     content_length := None; body := [] |}.

(* body produced by Response/FileObjResponse.__end_of_response__ from the
   bytes available from the representation start *)
Definition slice_from (repr : list Z) (start : Z) (end_ : option Z) : list Z :=
  match end_ with
  | Some e => ztake (e - start + 1) (zdrop start repr)   (* read(e-start+1) *)
  | None => zdrop start repr
  end.

(* emission of a response whose representation bytes are [repr] and whose
   tracked length is [L]; ranges already filtered by make_partial *)
Definition emit_known (repr : list Z) (L : Z) (ranges : list range) : answer :=
  match ranges with
  | [] => {| status := 200; content_range := None;
             content_length := clen_header L; body := repr |}
  | r :: _ =>
      match range_window L r with
      | W206 s e crs cre n =>
          {| status := 206;
             content_range := Some (content_range_text (dec crs) (dec cre) L);
             content_length := Some (dec n);
             body := slice_from repr s e |}
      | W416 s e => answer_416 L s e
      end
  end.

(* ---- Response: io.BytesIO buffer with position and tracked length *)
Record resp := { buf : list Z; pos : Z; clen : Z }.
Inductive rop := Write (data : list Z) | ReadData.

(* BytesIO.write at position p: overwrite, extend (zero fill if p > len) *)
Definition bytesio_write (b : list Z) (p : Z) (d : list Z) : list Z :=
  let n := zlen b in
  if p <=? n then ztake p b ++ d ++ zdrop (p + zlen d) b
  else b ++ repeat 0 (Z.to_nat (p - n)) ++ d.

Definition resp_init (data : list Z) : resp :=
  {| buf := data; pos := zlen data (* seek(0, 2) *); clen := zlen data |}.
Definition resp_step (r : resp) (o : rop) : resp :=
  match o with
  | Write d => {| buf := bytesio_write (buf r) (pos r) d;
                  pos := pos r + zlen d; clen := clen r + zlen d |}
  | ReadData => {| buf := buf r; pos := zlen (buf r); clen := clen r |}
  end.
Definition resp_emit (r : resp) (ranges : list range) : answer :=
  emit_known (buf r) (clen r) (make_partial ranges).
Definition response_answer (init : list Z) (ops : list rop) (ranges : list range)
  : answer := resp_emit (fold_left resp_step ops (resp_init init)) ranges.

(* ---- FileObjResponse over a seekable object holding [content], positioned
   at [p] when the response is built (0 <= p <= size): the representation is
   the file from that position *)
Definition fileobj_answer (content : list Z) (p : Z) (ranges : list range)
  : answer :=
  emit_known (zdrop p content) (zlen content - p) (make_partial ranges).

(* ---- GeneratorResponse.__range_generator__ *)
Fixpoint range_gen (chunks : list (list Z)) (pos start : Z) (end_ : option Z)
  : list (list Z) :=
  match chunks with
  | [] => []
  | data :: rest =>
      let len := zlen data in
      if pos + len <=? start then range_gen rest (pos + len) start end_
      else
        let s := if pos <? start then start - pos else 0 in
        let e := match end_ with
                 | Some en => if en <? pos + len then en + 1 - pos else len
                 | None => len
                 end in
        let pos' := pos + len in
        pyslice data s e ::
          (match end_ with
           | Some en => if en <? pos' then [] else range_gen rest pos' start end_
           | None => range_gen rest pos' start end_
           end)
  end.

Record ganswer := { g_status : Z; g_content_range : option (list Z);
                    g_content_length : option (list Z);
                    g_chunks : list (list Z) }.

Definition generator_answer (chunks : list (list Z)) (declared : Z)
           (ranges : list range) : ganswer :=
  match make_partial ranges with
  | [] => {| g_status := 200; g_content_range := None;
             g_content_length := clen_header declared;
             g_chunks := range_gen chunks 0 0 None |}
  | r :: _ =>
      match range_window declared r with
      | W206 s e crs cre n =>
          {| g_status := 206;
             g_content_range :=
               Some (content_range_text (dec crs) (dec cre) declared);
             g_content_length := Some (dec n);
             g_chunks := range_gen chunks 0 s e |}
      | W416 s e =>
          {| g_status := 416;
             g_content_range :=
               Some (content_range_text (show_oz s) (show_oz e) declared);
             g_content_length := None; g_chunks := [] |}
      end
  end.

(* ---- independent RFC 9110 oracle *)
Inductive rfc := R200 | R206 (first last : Z) | R416.
Definition rfc_range (L : Z) (r : range) : rfc :=
  match r with
  | (Some f, Some l) => if f <? L then R206 f (Z.min l (L - 1)) else R416
  | (Some f, None) => if f <? L then R206 f (L - 1) else R416
  | (None, Some n) =>
      if (n =? 0) || (L =? 0) then R416 else R206 (Z.max 0 (L - n)) (L - 1)
  | (None, None) => R416
  end.
Definition rfc_slice (repr : list Z) (first last : Z) : list Z :=
  ztake (last - first + 1) (zdrop first repr).

(* ---- correspondence entry points *)
Definition enc_olz (o : option (list Z)) : V :=
  match o with Some l => VS l | None => VN end.
Definition enc_answer (a : answer) : V :=
  VL [VZ (status a); enc_olz (content_range a); enc_olz (content_length a);
      VY (body a)].
Definition enc_ganswer (a : ganswer) : V :=
  VL [VZ (g_status a); enc_olz (g_content_range a);
      enc_olz (g_content_length a); VL (map VY (g_chunks a))].
Definition mkops (ws : list (option (list Z))) : list rop :=
  map (fun w => match w with Some d => Write d | None => ReadData end) ws.
Definition run_response init ws ranges : V :=
  enc_answer (response_answer init (mkops ws) ranges).
Definition run_fileobj content p ranges : V :=
  enc_answer (fileobj_answer content p ranges).
Definition run_generator chunks declared ranges : V :=
  enc_ganswer (generator_answer chunks declared ranges).
Definition run_make_partial (rs : list range) : V :=
  VL (map (fun r => VL [VOpt (fst r); VOpt (snd r)]) (make_partial rs)).
