(* Model of PoorWSGI static file serving (C12):
     poorwsgi/wsgi.py     Application.handler_from_table, "try file or index"
     poorwsgi/results.py  directory_index (the entry filter)
     poorwsgi/request.py  method_number, document_root, document_index
     CPython posixpath.normpath (the documented pure-Python algorithm; the
     C accelerator posix._path_normpath of 3.12 is tied to it by the
     correspondence run).

   Strings are [list Z] (code points).  [p] below is [req.path], i.e.
   PATH_INFO after the latin-1 -> UTF-8 re-decoding of Request.path; the
   theorems quantify over every [p], so that decoding is irrelevant to them.
   The file system is a function [fs : list Z -> node] from path *strings* to
   what os.path.exists/isfile/isdir and os.access(.., R_OK) report for that
   string; [listdir] is os.listdir.  A Python exception that can leave
   directory_index (IndexError on item[0] of an empty name) is the outcome
   [OError].
   User routes are not modelled: the model starts where no static or regular
   expression route matched (comment "# try file or index"). *)
From Coq Require Import ZArith List Bool String.
Require Import PW.lib.Val.
Import ListNotations.
Open Scope string_scope.
Open Scope list_scope.
Open Scope Z_scope.

(* '/' = 47, '.' = 46, '~' = 126 *)

(* ------------------------------------------------------------------ str *)
(* str.lstrip("/") *)
Fixpoint lstrip_slash (p : list Z) : list Z :=
  match p with
  | c :: p' => if c =? 47 then lstrip_slash p' else p
  | [] => []
  end.

(* str.split("/"): never empty, "" -> [""] *)
Fixpoint split_slash (p : list Z) : list (list Z) :=
  match p with
  | [] => [[]]
  | c :: p' =>
      if c =? 47 then [] :: split_slash p'
      else match split_slash p' with
           | s :: r => (c :: s) :: r
           | [] => [[c]]                      (* unreachable *)
           end
  end.

(* "/".join(l) *)
Fixpoint join_slash (l : list (list Z)) : list Z :=
  match l with
  | [] => []
  | [s] => s
  | s :: r => s ++ 47 :: join_slash r
  end.

Definition is_nil {A} (l : list A) : bool :=
  match l with [] => true | _ => false end.

(* ------------------------------------------------------- posixpath.normpath *)
(* initial_slashes = path.startswith('/');
   if initial_slashes and path.startswith('//') and not path.startswith('///'):
       initial_slashes = 2 *)
Definition starts_slash (p : list Z) : bool :=
  match p with c :: _ => c =? 47 | [] => false end.
Definition initial_slashes (p : list Z) : nat :=
  if starts_slash p then
    if starts_slash (tl p) && negb (starts_slash (tl (tl p))) then 2%nat
    else 1%nat
  else 0%nat.

Definition is_dotdot (s : list Z) : bool := lz_eqb s [46; 46].

(* one iteration of [for comp in comps]; [abs] = bool(initial_slashes);
   the stack is new_comps with its LAST element first *)
Definition step (abs : bool) (stack : list (list Z)) (comp : list Z)
  : list (list Z) :=
  if lz_eqb comp [] || lz_eqb comp [46] then stack                 (* continue *)
  else if negb (is_dotdot comp)
          || (negb abs && is_nil stack)
          || (match stack with top :: _ => is_dotdot top | [] => false end)
       then comp :: stack                                (* new_comps.append *)
       else match stack with
            | _ :: rest => rest                             (* new_comps.pop *)
            | [] => stack
            end.

Definition norm_comps (abs : bool) (comps : list (list Z)) : list (list Z) :=
  rev (fold_left (step abs) comps []).

Definition normpath (p : list Z) : list Z :=
  match p with
  | [] => [46]                                     (* if path == '': return '.' *)
  | _ =>
      let init := initial_slashes p in
      let r := repeat 47 init ++
               join_slash (norm_comps (negb (Nat.eqb init 0)) (split_slash p)) in
      match r with [] => [46] | _ => r end                       (* path or '.' *)
  end.

(* rfile = "%s%s" % (req.document_root,
                     path.normpath("/%s" % req.path.lstrip("/"))) *)
Definition rel_path (p : list Z) : list Z := normpath (47 :: lstrip_slash p).
Definition resolved (root p : list Z) : list Z := root ++ rel_path p.

(* ----------------------------------------------------------- request.py *)
Definition methods : list (list Z * Z) :=
  [ (s2l "HEAD", 1); (s2l "GET", 2); (s2l "POST", 4); (s2l "PUT", 8);
    (s2l "DELETE", 16); (s2l "TRACE", 32); (s2l "OPTIONS", 64);
    (s2l "CONNECT", 128); (s2l "PATCH", 256) ].

Fixpoint lookup {B} (k : list Z) (t : list (list Z * B)) : option B :=
  match t with
  | [] => None
  | (k', v) :: t' => if lz_eqb k k' then Some v else lookup k t'
  end.

(* Request.method_number: unknown method -> methods['GET'] *)
Definition method_number (m : list Z) : Z :=
  match lookup m methods with Some n => n | None => 2 end.

(* req.method_number & (METHOD_HEAD | METHOD_GET) *)
Definition get_or_head (mn : Z) : bool := negb (Z.land mn 3 =? 0).

(* Request.document_root: poor_environ.get('poor_DocumentRoot', app.document_root) *)
Definition document_root (env : option (list Z)) (attr : list Z) : list Z :=
  match env with Some r => r | None => attr end.

(* var.lower() == 'on' ('O','N','o','n' are the only code points whose
   lower() contains 'o' or 'n': checked over all of Unicode by the harness) *)
Definition is_on (v : list Z) : bool :=
  match v with
  | [a; b] => ((a =? 79) || (a =? 111)) && ((b =? 78) || (b =? 110))
  | _ => false
  end.

(* Request.document_index *)
Definition document_index (env : option (list Z)) (attr : bool) : bool :=
  match env with
  | Some v => if is_nil v then attr else is_on v
  | None => attr
  end.

(* ----------------------------------------------------------- file system *)
Inductive node :=
  | Missing
  | File (readable : bool)
  | Dir (readable : bool)
  | Other (readable : bool).        (* exists, neither regular file nor dir *)

Definition n_exists (n : node) : bool :=
  match n with Missing => false | _ => true end.
Definition n_isfile (n : node) : bool :=
  match n with File _ => true | _ => false end.
Definition n_isdir (n : node) : bool :=
  match n with Dir _ => true | _ => false end.
(* os.access(path, R_OK) *)
Definition n_readable (n : node) : bool :=
  match n with Missing => false | File r | Dir r | Other r => r end.

Inductive outcome :=
  | ODebug                                     (* debug_info page *)
  | ODefault                                   (* handler_from_default *)
  | OFile (f : list Z)                         (* FileResponse(f): open(f,'rb') *)
  | OListing (d : list Z) (names : list (list Z))  (* 200, rows in order *)
  | OForbidden                                 (* HTTPException(403) *)
  | OError (e : string).                       (* exception -> 500 *)

(* list.sort() on str: lexicographic by code point *)
Fixpoint lz_leb (a b : list Z) : bool :=
  match a, b with
  | [], _ => true
  | _ :: _, [] => false
  | x :: a', y :: b' =>
      if x <? y then true else if y <? x then false else lz_leb a' b'
  end.
Fixpoint insert (x : list Z) (l : list (list Z)) : list (list Z) :=
  match l with
  | [] => [x]
  | y :: l' => if lz_leb x y then x :: l else y :: insert x l'
  end.
Definition sort (l : list (list Z)) : list (list Z) := fold_right insert [] l.

(* the two [continue] tests on the name alone; None = IndexError
     if item[0] == "." and item != "..": continue
     if item[-1] == "~": continue *)
Definition name_skipped (item : list Z) : option bool :=
  match item with
  | [] => None                                         (* item[0] *)
  | c0 :: _ =>
      if (c0 =? 46) && negb (is_dotdot item) then Some true
      else Some (last item 0 =? 126)
  end.

Section Serve.
  Variable fs : list Z -> node.
  Variable listdir : list Z -> list (list Z).

  (* fpath = "%s/%s" % (path, item) *)
  Definition fpath (path item : list Z) : list Z := path ++ 47 :: item.

  (* the [for item in index] loop: names of the rows produced, each with the
     '/' suffix of directories (fname before html_escape) *)
  Fixpoint rows (path : list Z) (index : list (list Z))
    : option (list (list Z)) :=
    match index with
    | [] => Some []
    | item :: index' =>
        match name_skipped item with
        | None => None
        | Some true => rows path index'
        | Some false =>
            if negb (n_readable (fs (fpath path item))) then rows path index'
            else match rows path index' with
                 | None => None
                 | Some r =>
                     Some ((item ++ (if n_isdir (fs (fpath path item))
                                     then [47] else [])) :: r)
                 end
        end
    end.

  (* index = os.listdir(path)
     if req.document_root != path[:-1]: index.append("..")
     index.sort() *)
  Definition index_of (root path : list Z) : list (list Z) :=
    sort (if lz_eqb root (removelast path) then listdir path
          else listdir path ++ [[46; 46]]).

  Definition directory_index (root path : list Z) : outcome :=
    if negb (n_isdir (fs path)) then OError "HTTPException500"
    else match rows path (index_of root path) with
         | None => OError "IndexError"
         | Some r => OListing path r
         end.

  (* if req.debug and req.path == '/debug-info' ... else handler_from_default *)
  Definition fallthrough (debug : bool) (p : list Z) : outcome :=
    if debug && lz_eqb p (s2l "/debug-info") then ODebug else ODefault.

  (* handler_from_table from "# try file or index" on.
     root = req.document_root, index = req.document_index,
     mn = req.method_number, p = req.path *)
  Definition serve (root : list Z) (index debug : bool) (mn : Z) (p : list Z)
    : outcome :=
    if negb (is_nil root) && get_or_head mn then
      let rfile := resolved root p in
      if negb (n_exists (fs rfile)) then fallthrough debug p
      else if n_isfile (fs rfile) && n_readable (fs rfile) then OFile rfile
      else if index && n_isdir (fs rfile) && n_readable (fs rfile)
           then directory_index root rfile
           else OForbidden
    else fallthrough debug p.

  (* the same from the raw request: method string, app attributes and the
     poor_DocumentRoot / poor_DocumentIndex overrides *)
  Definition serve_request (env_root : option (list Z)) (attr_root : list Z)
             (env_index : option (list Z)) (attr_index : bool)
             (debug : bool) (method p : list Z) : outcome :=
    serve (document_root env_root attr_root)
          (document_index env_index attr_index)
          debug (method_number method) p.
End Serve.

(* --------------------------------------------- correspondence entry points *)
Definition run_normpath (p : list Z) : V := VS (normpath p).
Definition run_normpaths (ps : list (list Z)) : V := VL (map run_normpath ps).
Definition run_rel (p : list Z) : V := VS (rel_path p).

(* finite file system: association lists, everything else is Missing / [] *)
Definition fs_of (t : list (list Z * node)) (path : list Z) : node :=
  match lookup path t with Some n => n | None => Missing end.
Definition listdir_of (t : list (list Z * list (list Z))) (path : list Z)
  : list (list Z) :=
  match lookup path t with Some l => l | None => [] end.

Definition enc_outcome (o : outcome) : V :=
  match o with
  | ODebug => VL [VX "debug"]
  | ODefault => VL [VX "default"]
  | OFile f => VL [VX "file"; VS f]
  | OListing d names => VL [VX "listing"; VS d; VL (map VS names)]
  | OForbidden => VL [VX "forbidden"]
  | OError e => VL [VX "error"]
  end.

(* first element: the outcome; second: the argument of the path.exists call
   (None when the gate is not passed and the file system is never consulted) *)
Definition run_serve (t : list (list Z * node))
           (d : list (list Z * list (list Z)))
           (env_root : option (list Z)) (attr_root : list Z)
           (env_index : option (list Z)) (attr_index : bool)
           (debug : bool) (method p : list Z) : V :=
  let root := document_root env_root attr_root in
  VL [ enc_outcome (serve_request (fs_of t) (listdir_of d) env_root attr_root
                                  env_index attr_index debug method p);
       if negb (is_nil root) && get_or_head (method_number method)
       then VS (resolved root p) else VN ].

(* grid of the property's quantifier, generated on the model side:
   every continuation of [k] more segments, each preceded by '/' or '//' *)
Fixpoint tails (segs : list (list Z)) (k : nat) : list (list Z) :=
  match k with
  | O => [[]]
  | S k' =>
      flat_map (fun j =>
        flat_map (fun s => map (fun t => j ++ s ++ t) (tails segs k')) segs)
        [[47]; [47; 47]]
  end.
Definition run_grid (prefix : list Z) (segs : list (list Z)) (k : Z) : V :=
  VL (map (fun t => VS (normpath (prefix ++ t))) (tails segs (Z.to_nat k))).
(* expected side of a grid case: indices into a table of distinct results *)
Definition Vpick (table : list (list Z)) (idx : list Z) : V :=
  VL (map (fun i => VS (nth (Z.to_nat i) table [])) idx).

(* compact notation for a grid result: [init] slashes, then the segments
   with the given indices in [segs] joined by '/' *)
Definition seg_path (segs : list (list Z)) (init : Z) (idx : list Z) : list Z :=
  repeat 47 (Z.to_nat init) ++
  join_slash (map (fun i => nth (Z.to_nat i) segs []) idx).

(* the application on every grid continuation of [prefix] *)
Definition run_serve_grid (t : list (list Z * node))
           (d : list (list Z * list (list Z)))
           (env_root : option (list Z)) (attr_root : list Z)
           (env_index : option (list Z)) (attr_index : bool)
           (debug : bool) (method prefix : list Z)
           (segs : list (list Z)) (k : Z) : V :=
  VL (map (fun tl => run_serve t d env_root attr_root env_index attr_index
                               debug method (prefix ++ tl))
          (tails segs (Z.to_nat k))).
Definition Vpickv (table : list V) (idx : list Z) : V :=
  VL (map (fun i => nth (Z.to_nat i) table VN) idx).
