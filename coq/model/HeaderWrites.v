(* Which response headers the framework names on its own, and where
   (property C05).  The census itself is generated from the source on every
   run (gen/HeaderWritesGen.v by harness/py2v_hdrwrites.py); this file is the
   policy it is judged by: (function, receiver, how, header name). *)
From Coq Require Import List String Bool.
Import ListNotations.
Open Scope string_scope.

Definition header_write := (string * string * string * string)%type.

Definition allowed_header_writes : list header_write :=
  [ (* default collection of a response built without headers *)
    ("response.BaseResponse.__init__", "Headers", "literal", "X-Powered-By");
    (* emission (Dispatch.emit / Range.v): automatic headers only if absent,
       the range block *)
    ("response.BaseResponse.__start_response__", "Response", "literal",
     "Content-Range");
    ("response.BaseResponse.__start_response__", "self.__headers", "add",
     "Content-Length");
    ("response.BaseResponse.__start_response__", "self.__headers", "add",
     "Content-Range");
    ("response.BaseResponse.__start_response__", "self.__headers", "add",
     "Content-Type");
    ("response.BaseResponse.__start_response__", "self.__headers", "del",
     "Accept-Ranges");
    ("response.BaseResponse.__start_response__", "self.__headers", "store",
     "Content-Length");
    (* partial content on request of the handler *)
    ("response.BaseResponse.make_partial", "self", "add_header",
     "Accept-Ranges");
    ("response.BaseResponse.make_range", "self.headers", "add",
     "Content-Range");
    ("response.BaseResponse.make_range", "self.headers", "del",
     "Content-Range");
    ("response.BaseResponse.status_code", "self.__headers", "del",
     "Accept-Ranges");
    (* constructors of the special classes: what their arguments say *)
    ("response.FileResponse.__init__", "self", "add_header", "Last-Modified");
    ("response.NotModifiedResponse.__init__", "self", "add_header",
     "Content-Location");
    ("response.NotModifiedResponse.__init__", "self", "add_header", "Date");
    ("response.NotModifiedResponse.__init__", "self", "add_header", "ETag");
    ("response.NotModifiedResponse.__init__", "self", "add_header", "Vary");
    ("response.RedirectResponse.__init__", "self", "add_header", "Location");
    (* not a header: the request start time in the WSGI environment *)
    ("wsgi.Application.__request__", "env", "store", "REQUEST_STARTTIME") ].

Definition hw_eqb (a b : header_write) : bool :=
  match a, b with
  | (f, r, m, x), (f', r', m', x') =>
      String.eqb f f' && String.eqb r r' && String.eqb m m' && String.eqb x x'
  end.

Lemma hw_eqb_eq a b : hw_eqb a b = true -> a = b.
Proof.
  destruct a as [[[f r] m] x], b as [[[f' r'] m'] x']. unfold hw_eqb.
  intros H. repeat (apply andb_true_iff in H; destruct H as [H ?]).
  repeat match goal with
         | E : String.eqb _ _ = true |- _ => apply String.eqb_eq in E
         end.
  now subst.
Qed.

Definition header_writes_ok (ws : list header_write) : bool :=
  forallb (fun w => existsb (hw_eqb w) allowed_header_writes) ws.

Lemma header_writes_ok_spec ws :
  header_writes_ok ws = true ->
  forall w, In w ws -> In w allowed_header_writes.
Proof.
  unfold header_writes_ok. intros H w Hin. rewrite forallb_forall in H.
  specialize (H w Hin). apply existsb_exists in H.
  destruct H as [a [Ha He]]. apply hw_eqb_eq in He. now subst.
Qed.
