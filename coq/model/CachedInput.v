(* Model of poorwsgi/request.py  class CachedInput  (C09), as of the tree with
   the fix: commits 51ee5fe, 006a394, 8729f09 and c45aea6.

   bytes = list Z.  The reader's state is (buffer, todo) plus the underlying
   stream; the stream is (remaining data, shorts): file.read(k) hands out
   min(k, next short bound, len remaining) bytes and drops the bound.  An
   exhausted [shorts] list is a blocking stream (everything requested that is
   available); a bound 0 is a momentarily empty non-blocking stream; an empty
   [s_data] is a stream at end of file (every read returns b'').

   Domain of the model: 0 <= todo (declared length n >= 0).  Then every slice
   bound and every size handed to file.read is >= 0, so [take]/[drop] (which
   treat a negative bound as 0) coincide with Python slicing.  A negative
   declared length (Request passes -1 when there is no Content-Length) makes
   the code call file.read(-1); that is outside the model.  Likewise the
   block size is taken >= 0 (the theorems assume >= 1; with block_size = 0
   no refill ever happens and nothing is returned).

   Timeout: modelled for timeout=None, where the loop of readline has no
   clock at all and a refill that returns nothing ends the call.  With a
   float timeout the loop instead keeps polling and raises TimeoutError once
   time() passes a deadline; that clock-based path is outside the model (the
   harness runs the implementation with timeout=None and an instrumented
   stream that raises after a number of reads in one call, which corresponds
   to [OutOfFuel] here).

   Python variable l_size always equals len(line) at the loop test (it is 0
   with line = b'' initially and is assigned len(line) right after the only
   statement of the loop that changes line and does not return), so the model
   writes [len line] for it.

   The log of a call is the list of (size requested, bytes received) of its
   file.read calls, in order. *)
From Coq Require Import String ZArith List Bool.
Require Import PW.lib.Val.
Import ListNotations.
Open Scope Z_scope.

Definition len (l : list Z) : Z := Z.of_nat (List.length l).
Definition take (k : Z) (l : list Z) : list Z := firstn (Z.to_nat k) l.   (* l[:k], k >= 0 *)
Definition drop (k : Z) (l : list Z) : list Z := skipn (Z.to_nat k) l.    (* l[k:], k >= 0 *)

(* Python truthiness of bytes *)
Definition nonempty (l : list Z) : bool :=
  match l with [] => false | _ :: _ => true end.

(* ---------------------------------------------------------------- stream *)
Record stream := Stream { s_data : list Z; s_shorts : list Z }.

(* file.read(k) for k >= 0 *)
Definition s_read (k : Z) (f : stream) : list Z * stream :=
  match s_shorts f with
  | [] => (take k (s_data f), Stream (drop k (s_data f)) [])
  | b :: bs =>
      let m := Z.min k b in
      (take m (s_data f), Stream (drop m (s_data f)) bs)
  end.

(* ---------------------------------------------------------------- reader *)
Record st := St { buf : list Z; todo : Z; src : stream }.

Definition log := list (Z * Z).

Inductive outcome :=
  | Ok (result : list Z) (s : st) (q : log)
  | OutOfFuel.

(* def read(self, size=-1) *)
Definition read (block size : Z) (s : st) : outcome :=
  let size := if size <? 0 then block else size in
  let b_size := len (buf s) in
  let size := Z.min (todo s + b_size) size in
  if nonempty (buf s) then
    if b_size >=? size then
      Ok (take size (buf s)) (St (drop size (buf s)) (todo s) (src s)) []
    else
      let size := size - b_size in
      let (data, f) := s_read size (src s) in
      Ok (buf s ++ data) (St [] (todo s - len data) f) [(size, len data)]
  else
    let size := Z.min (todo s) size in
    let (data, f) := s_read size (src s) in
    Ok data (St (buf s) (todo s - len data) f) [(size, len data)].

(* line[-1:] == b'\r' *)
Definition ends_cr (l : list Z) : bool := last l 0 =? 13.
(* buffer[:1] == b'\n' *)
Definition starts_lf (l : list Z) : bool :=
  match l with x :: _ => x =? 10 | [] => false end.

(* l.find(b'\r\n'): lowest index of a CRLF wholly inside l.
   buffer.find(b'\r\n', 0, max_size) is [find_crlf (take max_size buffer)]
   (Python -1 is None). *)
Fixpoint find_crlf (l : list Z) : option Z :=
  match l with
  | [] => None
  | x :: t =>
      if (x =? 13) && starts_lf t then Some 0
      else option_map Z.succ (find_crlf t)
  end.

(* the [while l_size < size] loop; one unit of fuel per execution of its body *)
Fixpoint rl_loop (fuel : nat) (block size : Z) (line : list Z) (s : st)
         (q : log) : outcome :=
  if len line <? size then
    match fuel with
    | O => OutOfFuel
    | S fuel' =>
        let max_size := size - len line in
        if ends_cr line && starts_lf (buf s) then
          (* CRLF divided by the end of the previous block *)
          Ok (line ++ [10]) (St (drop 1 (buf s)) (todo s) (src s)) q
        else
          match find_crlf (take max_size (buf s)) with
          | Some pos =>
              Ok (line ++ take (pos + 2) (buf s))
                 (St (drop (pos + 2) (buf s)) (todo s) (src s)) q
          | None =>
              (* timeout is None: no clock *)
              let line' := line ++ take max_size (buf s) in
              let buf' := drop max_size (buf s) in
              if len line' <? size then
                let n_size := Z.min (Z.min (todo s) (size - len line')) block in
                if n_size =? 0 then       (* if not n_size: break *)
                  Ok line' (St buf' (todo s) (src s)) q
                else
                  let (data, f) := s_read n_size (src s) in
                  let s1 := St data (todo s - len data) f in
                  let q1 := q ++ [(n_size, len data)] in
                  if negb (nonempty data) then    (* and timeout is None: break *)
                    Ok line' s1 q1
                  else rl_loop fuel' block size line' s1 q1
              else
                rl_loop fuel' block size line' (St buf' (todo s) (src s)) q
          end
    end
  else Ok line s q.       (* no end-of-line found: return line *)

(* size the loop runs with: readline(size) *)
Definition eff_size (size : Z) (s : st) : Z :=
  if size <? 0 then len (buf s) + todo s else size.

(* def readline(self, size=-1) *)
Definition readline (fuel : nat) (block size : Z) (s : st) : outcome :=
  rl_loop fuel block (eff_size size s) [] s [].

(* ------------------------------------------------------------- histories *)
Inductive call := CRead (size : Z) | CReadline (size : Z).

Definition call_size (c : call) : Z :=
  match c with CRead k => k | CReadline k => k end.

Definition step (fuel : nat) (block : Z) (c : call) (s : st) : outcome :=
  match c with
  | CRead k => read block k s
  | CReadline k => readline fuel block k s
  end.

(* results of the calls made, the last state reached, and whether every
   call returned (false: the next call ran out of fuel = spins) *)
Fixpoint run (fuel : nat) (block : Z) (cs : list call) (s : st)
  : list (list Z * log) * st * bool :=
  match cs with
  | [] => ([], s, true)
  | c :: cs' =>
      match step fuel block c s with
      | OutOfFuel => ([], s, false)
      | Ok r s' q =>
          let '(rs, fin, ok) := run fuel block cs' s' in
          ((r, q) :: rs, fin, ok)
      end
  end.

(* CachedInput(stream, n, block, timeout=None) over a stream holding [body] *)
Definition init (body : list Z) (n : Z) (shorts : list Z) : st :=
  St [] n (Stream body shorts).

Definition results (rs : list (list Z * log)) : list Z := concat (map fst rs).
Definition logs (rs : list (list Z * log)) : log := concat (map snd rs).

(* bytes still to be delivered: buffered ones and the unread ones within budget *)
Definition pending (s : st) : list Z := buf s ++ take (todo s) (s_data (src s)).

(* ------------------------------------------- vocabulary of the theorems *)
(* total of the sizes requested / of the bytes received in a log *)
Definition asked (q : log) : Z := fold_right (fun p a => fst p + a) 0 q.
Definition got (q : log) : Z := fold_right (fun p a => snd p + a) 0 q.

(* [within t q]: starting with a budget of t bytes, every read of the log
   requests between 0 and the budget left, receives at most what it
   requested, and the budget decreases by what was received *)
Fixpoint within (t : Z) (q : log) : Prop :=
  match q with
  | [] => True
  | (k, g) :: r => 0 <= k <= t /\ 0 <= g <= k /\ within (t - g) r
  end.

(* a CRLF at index i of l *)
Definition crlf_at (l : list Z) (i : nat) : Prop :=
  nth_error l i = Some 13 /\ nth_error l (S i) = Some 10.

Definition ends_crlf (l : list Z) : Prop := exists p, l = p ++ [13; 10].

(* nothing buffered and the declared length used up *)
Definition exhausted (s : st) : Prop := buf s = [] /\ todo s = 0.

(* --------------------------------------------------------- correspondence *)
Definition enc_log (q : log) : V :=
  VL (map (fun p => VL [VZ (fst p); VZ (snd p)]) q).

Fixpoint enc_run (fuel : nat) (block : Z) (cs : list call) (s : st) : list V :=
  match cs with
  | [] => []
  | c :: cs' =>
      match step fuel block c s with
      | OutOfFuel => [VX "Spin"%string]
      | Ok r s' q => VL [VY r; enc_log q] :: enc_run fuel block cs' s'
      end
  end.

(* run-length coded bytes [(byte, count); ...] for long bodies *)
Definition expand (segs : list (Z * Z)) : list Z :=
  flat_map (fun p => repeat (fst p) (Z.to_nat (snd p))) segs.

(* kind 0 = read, otherwise readline *)
Definition mk_call (p : Z * Z) : call :=
  if fst p =? 0 then CRead (snd p) else CReadline (snd p).

Definition run_hist (fuel : Z) (body : list Z) (n block : Z) (shorts : list Z)
           (calls : list (Z * Z)) : V :=
  VL (enc_run (Z.to_nat fuel) block (map mk_call calls) (init body n shorts)).
