(* Model of the registration API of poorwsgi/wsgi.py Application (C19):
   set_filter, add/pop_before_response, add/pop_after_response (and the
   deprecated *_request aliases and decorator forms, which only forward),
   set/pop_default, set/pop/is_route, set/pop/is_regular_route,
   set/pop_http_state, set/pop_error_handler and the introspection
   properties filters/before/after/defaults/routes/regular_routes/states/
   errors.

   Abstractions
   * handlers, hooks, static paths, compiled patterns, status codes,
     exception classes, filter regexes and converters are identifiers (Z);
     only their identity is observed.  Filter names are strings (list Z)
     because set_filter inspects name[0].
   * a uri given to set/pop/is_route is [Static p] when re_filter does not
     match it and [Group r] when it does; r identifies the compiled pattern
     that __regex produces (the harness gives a group uri and the regular
     expression it translates to the same identifier).  The value stored in
     the regular table is (fun, converters, rule); only fun is modelled.
   * a Python dict (and OrderedDict) is an association list in insertion
     order with unique keys: [setv] updates in place or appends, [del]
     removes the key.  Mutating an inner dict in place is modelled by writing
     it back with [setv] (position unchanged).
   * a Python exception is the outcome [Raised name]; the state returned
     with it is the state the object is left in.

   Second part: the declarative specification the model is proved to
   refine (a finite map (kind, key, method bit) -> handler, a map of
   filters, two duplicate-free hook lists). *)
From Coq Require Import ZArith List Bool String.
Require Import PW.lib.Val.
Import ListNotations.
Open Scope string_scope.
Open Scope list_scope.
Open Scope Z_scope.

(* ------------------------------------------------------------------ dicts *)
Section Dict.
  Variables (K A : Type) (eqb : K -> K -> bool).

  (* d.get(k) / k in d *)
  Fixpoint get (k : K) (l : list (K * A)) : option A :=
    match l with
    | [] => None
    | (k', v) :: r => if eqb k k' then Some v else get k r
    end.

  Definition mem (k : K) (l : list (K * A)) : bool :=
    match get k l with Some _ => true | None => false end.

  (* d[k] = v *)
  Fixpoint setv (k : K) (v : A) (l : list (K * A)) : list (K * A) :=
    match l with
    | [] => [(k, v)]
    | (k', v') :: r =>
        if eqb k k' then (k', v) :: r else (k', v') :: setv k v r
    end.

  (* removal of key k (keys are unique; written as a filter so that no
     uniqueness side condition is needed in the lemmas) *)
  Fixpoint del (k : K) (l : list (K * A)) : list (K * A) :=
    match l with
    | [] => []
    | (k', v') :: r => if eqb k k' then del k r else (k', v') :: del k r
    end.
End Dict.
Arguments get {K A} eqb k l.
Arguments mem {K A} eqb k l.
Arguments setv {K A} eqb k v l.
Arguments del {K A} eqb k l.

Definition zget {A} := @get Z A Z.eqb.
Definition zmem {A} := @mem Z A Z.eqb.
Definition zset {A} := @setv Z A Z.eqb.
Definition zdel {A} := @del Z A Z.eqb.

Definition is_empty {A} (l : list A) : bool :=
  match l with [] => true | _ => false end.

(* ---------------------------------------------------------------- methods *)
(* state.methods.values() in dict order *)
Definition meths : list Z := [1; 2; 4; 8; 16; 32; 64; 128; 256].

(* Python [if method & val] *)
Definition has_bit (mask b : Z) : bool := negb (Z.land mask b =? 0).

Definition inb (x : Z) (l : list Z) : bool := existsb (Z.eqb x) l.

(* for val in methods.values(): if method & val: d[val] = fun *)
Fixpoint fan (mask f : Z) (ms : list Z) (d : list (Z * Z))
  : list (Z * Z) :=
  match ms with
  | [] => d
  | b :: r => fan mask f r (if has_bit mask b then zset b f d else d)
  end.

(* ------------------------------------------------------------------ state *)
Notation mtab := (list (Z * Z)).            (* {METHOD_x: handler} *)
Notation tbl := (list (Z * mtab)).          (* {key: {METHOD_x: handler}} *)
Notation ftab := (list (list Z * (Z * Z))). (* {name: (regex, converter)} *)

Record app := mkApp {
  a_before : list Z;
  a_after : list Z;
  a_defaults : mtab;
  a_routes : tbl;
  a_filters : ftab;
  a_regular : tbl;
  a_states : tbl;
  a_errors : tbl }.

(* identifiers of the built-in regexes 0..6 and converters int=0 float=1
   str=2 UUID=3 (Application.__init__) *)
Definition init_filters : ftab :=
  [ (s2l ":int", (0, 0)); (s2l ":float", (1, 1)); (s2l ":word", (2, 2));
    (s2l ":hex", (3, 2)); (s2l ":uuid", (4, 3)); (s2l ":re:", (5, 2));
    (s2l "none", (6, 2)) ].

Definition init : app := mkApp [] [] [] [] init_filters [] [] [].

Definition set_before a v := mkApp v (a_after a) (a_defaults a) (a_routes a)
  (a_filters a) (a_regular a) (a_states a) (a_errors a).
Definition set_after a v := mkApp (a_before a) v (a_defaults a) (a_routes a)
  (a_filters a) (a_regular a) (a_states a) (a_errors a).
Definition set_defaults a v := mkApp (a_before a) (a_after a) v (a_routes a)
  (a_filters a) (a_regular a) (a_states a) (a_errors a).
Definition set_routes a v := mkApp (a_before a) (a_after a) (a_defaults a) v
  (a_filters a) (a_regular a) (a_states a) (a_errors a).
Definition set_filters a v := mkApp (a_before a) (a_after a) (a_defaults a)
  (a_routes a) v (a_regular a) (a_states a) (a_errors a).
Definition set_regular a v := mkApp (a_before a) (a_after a) (a_defaults a)
  (a_routes a) (a_filters a) v (a_states a) (a_errors a).
Definition set_states a v := mkApp (a_before a) (a_after a) (a_defaults a)
  (a_routes a) (a_filters a) (a_regular a) v (a_errors a).
Definition set_errors a v := mkApp (a_before a) (a_after a) (a_defaults a)
  (a_routes a) (a_filters a) (a_regular a) (a_states a) v.

(* ------------------------------------------------------------- operations *)
Inductive uri := Static (p : Z) | Group (r : Z).

Inductive op :=
  | SetFilter (name : list Z) (regex conv : Z)
  | AddBefore (f : Z) | PopBefore (f : Z)
  | AddAfter (f : Z) | PopAfter (f : Z)
  | SetDefault (f mask : Z) | PopDefault (m : Z)
  | SetRoute (u : uri) (f mask : Z) | PopRoute (u : uri) (m : Z)
  | IsRoute (u : uri)
  | SetRegular (r f mask : Z) | PopRegular (r m : Z) | IsRegular (r : Z)
  | SetState (code f mask : Z) | PopState (code m : Z)
  | SetError (e f mask : Z) | PopError (e m : Z).

Inductive outcome :=
  | Done                 (* returned None *)
  | Ret (h : Z)          (* pop_* returned the removed handler *)
  | Answer (b : bool)    (* is_* *)
  | Raised (e : string).

(* list.remove(x): first occurrence *)
Fixpoint remove1 (x : Z) (l : list Z) : list Z :=
  match l with
  | [] => []
  | y :: r => if x =? y then r else y :: remove1 x r
  end.

(* if self.__X.count(fun): raise ValueError; self.__X.append(fun) *)
Definition hook_add (f : Z) (l : list Z) : option (list Z) :=
  if inb f l then None else Some (l ++ [f]).

(* if not self.__X.count(fun): raise ValueError; self.__X.remove(fun) *)
Definition hook_pop (f : Z) (l : list Z) : option (list Z) :=
  if negb (inb f l) then None else Some (remove1 f l).

(* if key not in T: T[key] = {}
   for val in methods.values(): if method & val: T[key][val] = fun *)
Definition tbl_set (key f mask : Z) (t : tbl) : tbl :=
  let t1 := if negb (zmem key t) then zset key [] t else t in
  match zget key t1 with
  | Some d => zset key (fan mask f meths d) t1
  | None => t1     (* unreachable *)
  end.

(* handlers = T.get(key, {}); rval = handlers.pop(method)
   [prune]: if not handlers: T.pop(key, None)
   None = KeyError (nothing changed) *)
Definition tbl_pop (prune : bool) (key m : Z) (t : tbl) : option (Z * tbl) :=
  let handlers := match zget key t with Some d => d | None => [] end in
  match zget m handlers with
  | None => None
  | Some rval =>
      let handlers' := zdel m handlers in
      let t1 := if zmem key t then zset key handlers' t else t in
      Some (rval,
            if prune && is_empty handlers' then zdel key t1 else t1)
  end.

Definition popped (a : app) (upd : app -> tbl -> app) (r : option (Z * tbl))
  : app * outcome :=
  match r with
  | None => (a, Raised "KeyError")
  | Some (h, t) => (upd a t, Ret h)
  end.

Definition hooked (a : app) (upd : app -> list Z -> app)
           (r : option (list Z)) : app * outcome :=
  match r with
  | None => (a, Raised "ValueError")
  | Some l => (upd a l, Done)
  end.

Definition step (a : app) (o : op) : app * outcome :=
  match o with
  | SetFilter name regex conv =>
      (* name = ':'+name if name[0] != ':' else name *)
      match name with
      | [] => (a, Raised "IndexError")
      | c :: _ =>
          let n := if negb (c =? 58) then 58 :: name else name in
          (set_filters a (setv lz_eqb n (regex, conv) (a_filters a)), Done)
      end
  | AddBefore f => hooked a set_before (hook_add f (a_before a))
  | PopBefore f => hooked a set_before (hook_pop f (a_before a))
  | AddAfter f => hooked a set_after (hook_add f (a_after a))
  | PopAfter f => hooked a set_after (hook_pop f (a_after a))
  | SetDefault f mask =>
      (set_defaults a (fan mask f meths (a_defaults a)), Done)
  | PopDefault m =>
      match zget m (a_defaults a) with
      | None => (a, Raised "KeyError")
      | Some h => (set_defaults a (zdel m (a_defaults a)), Ret h)
      end
  | SetRoute (Static p) f mask =>
      (set_routes a (tbl_set p f mask (a_routes a)), Done)
  | SetRoute (Group r) f mask | SetRegular r f mask =>
      (set_regular a (tbl_set r f mask (a_regular a)), Done)
  | PopRoute (Static p) m =>
      popped a set_routes (tbl_pop true p m (a_routes a))
  | PopRoute (Group r) m | PopRegular r m =>
      popped a set_regular (tbl_pop true r m (a_regular a))
  | IsRoute (Static p) => (a, Answer (zmem p (a_routes a)))
  | IsRoute (Group r) | IsRegular r => (a, Answer (zmem r (a_regular a)))
  | SetState code f mask =>
      (set_states a (tbl_set code f mask (a_states a)), Done)
  | PopState code m =>
      popped a set_states (tbl_pop false code m (a_states a))
  | SetError e f mask =>
      (set_errors a (tbl_set e f mask (a_errors a)), Done)
  | PopError e m =>
      popped a set_errors (tbl_pop false e m (a_errors a))
  end.

Fixpoint exec (a : app) (ops : list op) : app :=
  match ops with
  | [] => a
  | o :: r => exec (fst (step a o)) r
  end.

Fixpoint trace (a : app) (ops : list op) : list outcome :=
  match ops with
  | [] => []
  | o :: r => snd (step a o) :: trace (fst (step a o)) r
  end.

(* ------------------------------------------------------------ observation *)
Inductive kind := KDefault | KRoute | KRegular | KState | KError.

Definition kind_eqb (a b : kind) : bool :=
  match a, b with
  | KDefault, KDefault | KRoute, KRoute | KRegular, KRegular
  | KState, KState | KError, KError => true
  | _, _ => false
  end.

(* the defaults table is one inner table, addressed with key 0 *)
Definition table_of (k : kind) (a : app) : tbl :=
  match k with
  | KDefault => [(0, a_defaults a)]
  | KRoute => a_routes a
  | KRegular => a_regular a
  | KState => a_states a
  | KError => a_errors a
  end.

Definition tlookup (t : tbl) (key m : Z) : option Z :=
  match zget key t with Some d => zget m d | None => None end.

(* canonical view: which handler is registered for (kind, key, method).
   Empty inner tables and the order of the tables are not visible here. *)
Definition lookup (a : app) (k : kind) (key m : Z) : option Z :=
  tlookup (table_of k a) key m.

Definition filter_of (a : app) (name : list Z) : option (Z * Z) :=
  get lz_eqb name (a_filters a).

(* the call that registers / removes for a given table kind (the key of
   KDefault is 0; a group uri [Group r] addresses (KRegular, r)) *)
Definition set_op (k : kind) (key f mask : Z) : op :=
  match k with
  | KDefault => SetDefault f mask
  | KRoute => SetRoute (Static key) f mask
  | KRegular => SetRegular key f mask
  | KState => SetState key f mask
  | KError => SetError key f mask
  end.

Definition pop_op (k : kind) (key m : Z) : op :=
  match k with
  | KDefault => PopDefault m
  | KRoute => PopRoute (Static key) m
  | KRegular => PopRegular key m
  | KState => PopState key m
  | KError => PopError key m
  end.

(* ---------------------------------------------------------- specification *)
Record spec := mkSpec {
  s_map : kind -> Z -> Z -> option Z;
  s_filter : list Z -> option (Z * Z);
  s_before : list Z;
  s_after : list Z }.

Definition sinit : spec :=
  mkSpec (fun _ _ _ => None) (fun n => get lz_eqb n init_filters) [] [].

Definition target (u : uri) : kind * Z :=
  match u with Static p => (KRoute, p) | Group r => (KRegular, r) end.

Definition is_some {A} (o : option A) : bool :=
  match o with Some _ => true | None => false end.

(* register f for exactly the method bits contained in mask *)
Definition s_set (s : spec) (kd : kind) (ky f mask : Z) : spec * outcome :=
  (mkSpec (fun k key m =>
             if kind_eqb k kd && (key =? ky) && inb m meths && has_bit mask m
             then Some f else s_map s k key m)
          (s_filter s) (s_before s) (s_after s), Done).

(* remove exactly (kd, ky, m); absent: KeyError, nothing changes *)
Definition s_pop (s : spec) (kd : kind) (ky m : Z) : spec * outcome :=
  match s_map s kd ky m with
  | None => (s, Raised "KeyError")
  | Some h =>
      (mkSpec (fun k key m' =>
                 if kind_eqb k kd && (key =? ky) && (m' =? m)
                 then None else s_map s k key m')
              (s_filter s) (s_before s) (s_after s), Ret h)
  end.

(* "has any registered record" *)
Definition s_is (s : spec) (kd : kind) (ky : Z) : spec * outcome :=
  (s, Answer (existsb (fun m => is_some (s_map s kd ky m)) meths)).

Definition without (f : Z) (l : list Z) : list Z :=
  filter (fun x => negb (x =? f)) l.

Definition sstep (s : spec) (o : op) : spec * outcome :=
  match o with
  | SetFilter name regex conv =>
      match name with
      | [] => (s, Raised "IndexError")
      | c :: _ =>
          let n := if c =? 58 then name else 58 :: name in
          (mkSpec (s_map s)
                  (fun x => if lz_eqb x n then Some (regex, conv)
                            else s_filter s x)
                  (s_before s) (s_after s), Done)
      end
  | AddBefore f =>
      if inb f (s_before s) then (s, Raised "ValueError")
      else (mkSpec (s_map s) (s_filter s) (s_before s ++ [f]) (s_after s),
            Done)
  | PopBefore f =>
      if inb f (s_before s)
      then (mkSpec (s_map s) (s_filter s) (without f (s_before s))
                   (s_after s), Done)
      else (s, Raised "ValueError")
  | AddAfter f =>
      if inb f (s_after s) then (s, Raised "ValueError")
      else (mkSpec (s_map s) (s_filter s) (s_before s) (s_after s ++ [f]),
            Done)
  | PopAfter f =>
      if inb f (s_after s)
      then (mkSpec (s_map s) (s_filter s) (s_before s)
                   (without f (s_after s)), Done)
      else (s, Raised "ValueError")
  | SetDefault f mask => s_set s KDefault 0 f mask
  | PopDefault m => s_pop s KDefault 0 m
  | SetRoute u f mask => s_set s (fst (target u)) (snd (target u)) f mask
  | PopRoute u m => s_pop s (fst (target u)) (snd (target u)) m
  | IsRoute u => s_is s (fst (target u)) (snd (target u))
  | SetRegular r f mask => s_set s KRegular r f mask
  | PopRegular r m => s_pop s KRegular r m
  | IsRegular r => s_is s KRegular r
  | SetState c f mask => s_set s KState c f mask
  | PopState c m => s_pop s KState c m
  | SetError e f mask => s_set s KError e f mask
  | PopError e m => s_pop s KError e m
  end.

Fixpoint sexec (s : spec) (ops : list op) : spec :=
  match ops with
  | [] => s
  | o :: r => sexec (fst (sstep s o)) r
  end.

Fixpoint strace (s : spec) (ops : list op) : list outcome :=
  match ops with
  | [] => []
  | o :: r => snd (sstep s o) :: strace (fst (sstep s o)) r
  end.

(* the views of the model equal the views of the specification *)
Definition same_views (a : app) (s : spec) : Prop :=
  (forall k key m, lookup a k key m = s_map s k key m) /\
  (forall n, filter_of a n = s_filter s n) /\
  a_before a = s_before s /\ a_after a = s_after s.

Definition is_query (o : op) : bool :=
  match o with IsRoute _ | IsRegular _ => true | _ => false end.

(* outcomes agree step by step, [is_*] answers excepted *)
Fixpoint agree (ops : list op) (x y : list outcome) : Prop :=
  match ops, x, y with
  | [], [], [] => True
  | o :: ops', a :: x', b :: y' =>
      (is_query o = false -> a = b) /\ agree ops' x' y'
  | _, _, _ => False
  end.

(* a registration names at least one known method *)
Definition some_method (mask : Z) : bool := existsb (has_bit mask) meths.

Definition route_mask_ok (o : op) : bool :=
  match o with
  | SetRoute _ _ mask | SetRegular _ _ mask => some_method mask
  | _ => true
  end.

(* --------------------------------------------- correspondence entry points *)
Definition enc_outcome (o : outcome) : V :=
  match o with
  | Done => VN
  | Ret h => VZ h
  | Answer b => VB b
  | Raised e => VX e
  end.

Definition enc_mtab (d : mtab) : V :=
  VL (map (fun p => VL [VZ (fst p); VZ (snd p)]) d).
Definition enc_tbl (t : tbl) : V :=
  VL (map (fun p => VL [VZ (fst p); enc_mtab (snd p)]) t).
Definition enc_fent (p : list Z * (Z * Z)) : V :=
  VL [VS (fst p); VZ (fst (snd p)); VZ (snd (snd p))].

Fixpoint ftab_starts (pre t : ftab) : option ftab :=
  match pre, t with
  | [], _ => Some t
  | (n, (r, c)) :: pre', (n', (r', c')) :: t' =>
      if lz_eqb n n' && (r =? r') && (c =? c') then ftab_starts pre' t'
      else None
  | _ :: _, [] => None
  end.

(* the filters view; the seven built-in entries, when they are all still in
   place and unchanged, are abbreviated to one VN (the harness abbreviates
   the implementation's view in the same way) *)
Definition enc_ftab (t : ftab) : V :=
  match ftab_starts init_filters t with
  | Some rest => VL (VN :: map enc_fent rest)
  | None => VL (map enc_fent t)
  end.

(* order: filters before after defaults routes regular_routes states errors *)
Definition enc_views (a : app) : V :=
  VL [enc_ftab (a_filters a); VLz (a_before a); VLz (a_after a);
      enc_mtab (a_defaults a); enc_tbl (a_routes a); enc_tbl (a_regular a);
      enc_tbl (a_states a); enc_tbl (a_errors a)].

(* outcomes of all calls and the views at the end *)
Definition run_final (ops : list op) : V :=
  VL [VL (map enc_outcome (trace init ops)); enc_views (exec init ops)].

(* outcome and views after every call *)
Fixpoint steps_from (a : app) (ops : list op) : list V :=
  match ops with
  | [] => []
  | o :: r =>
      let (a', out) := step a o in
      VL [enc_outcome out; enc_views a'] :: steps_from a' r
  end.
Definition run_steps (ops : list op) : V := VL (steps_from init ops).
