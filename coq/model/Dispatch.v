(* Executable model of the request cycle of poorwsgi/wsgi.py
   (Application.__request__, state_from_table, error_from_table, the hook
   loops, to_response), poorwsgi/response.py (make_response,
   HTTPException.make_response, header emission of BaseResponse /
   NoContentResponse / Declined) at the level the dispatch properties C01,
   C03, C04, C05, C17, C20 observe.

   User callables are data ([beh]); Python exceptions are explicit ([Exc e]);
   every try/except of the code is an explicit match, so "the application
   never raises" is a theorem about [Escaped], not an artefact of totality.
   Routing itself (which leaf is chosen) is an input ([leaf]); it is the
   subject of C02/C12. *)
From Coq Require Import ZArith List Bool String.
Require Import PW.lib.Val PW.lib.Dec.
Import ListNotations.
Open Scope string_scope.
Open Scope list_scope.
Open Scope Z_scope.

Definition hdr := (list Z * list Z)%type.

(* ---------- responses *)
Inductive rclass :=
  | CBase        (* Response, JSON, Text, File*, Generator*, Redirect, Partial *)
  | CNoContent   (* NoContentResponse, EmptyResponse, NotModifiedResponse *)
  | CDeclined.
Record resp := mkResp {
  rcls : rclass; rstatus : Z; rhdrs : list hdr; rctype : list Z;
  rclen : Z; rbody : list (list Z) }.

Inductive exn :=
  | EHttp (code : Z)          (* HTTPException(code) *)
  | EHttpResp (r : resp)      (* HTTPException(response) *)
  | EUser (cls : Z)           (* an Exception subclass instance of class cls *)
  | EConn | EExit             (* ConnectionError ; SystemExit *)
  | ERespErr                  (* poorwsgi ResponseError *)
  | ETypeErr.                 (* TypeError raised by to_response's call arity *)

Inductive result (A : Type) := Val (a : A) | Exc (e : exn).
Arguments Val {A} a. Arguments Exc {A} e.

(* ---------- values user callables return *)
Inductive pyval :=
  | PStr (s : list Z)                       (* str, code points *)
  | PBytes (b : list Z)
  | PDict (json : option (list Z))          (* dict; json.dumps text or None if dumps raises *)
  | PListJson (json : option (list Z))      (* list that is empty or whose first item is not bytes *)
  | PListBytes (chunks : list (list Z))     (* list whose first item is bytes *)
  | PIter (chunks : list (list Z))          (* any other iterable of bytes *)
  | PNone | PInt (z : Z) | PObj             (* None, int, non-iterable object *)
  | PHdrs (h : option (list hdr))           (* headers collection: Some pairs / None = unusable one *)
  | PTuple (items : list pyval)
  | PResp (r : resp).

Inductive beh :=
  | Ret (v : pyval)
  | Pass                      (* after hook: return the response it was given *)
  | Abort (code : Z)          (* abort(code) *)
  | AbortResp (r : resp)      (* abort(response) *)
  | Throw (cls : Z)           (* raise an Exception of class cls *)
  | ThrowConn | ThrowExit.

Record app := mkApp {
  before : list beh;
  after : list beh;
  shandlers : list ((Z * Z) * beh);           (* (status, method bit) -> handler *)
  ehandlers : list (Z * list (Z * beh));      (* registration order: class, method -> handler *)
  digest_auth : bool }.

Inductive leaf :=
  | LEndpoint (b : beh)     (* a user endpoint (static, pattern or default handler) *)
  | LRaise (e : exn)        (* 405 / 404 / 403 raised by the dispatcher after the before hooks *)
  | LValue (v : pyval)      (* file, directory listing, debug page produced by the framework *)
  | LPre (e : exn).         (* failure while selecting, before any hook (converter raised) *)
Record facts := mkFacts {
  fconstruct : option exn;  (* None: Request(env, app) succeeded *)
  fmethod : Z;
  fleaf : leaf }.

Inductive event :=
  | EvBefore (i : nat)
  | EvEndpoint
  | EvStatus (code : Z)                 (* user status handler ran *)
  | EvError (cls : Z)                   (* user exception handler registered for cls ran *)
  | EvAfter (i : nat) (input : resp).

(* ---------- small string helpers *)
Definition lower1 (c : Z) : Z := if (65 <=? c) && (c <=? 90) then c + 32 else c.
Definition lower (s : list Z) : list Z := map lower1 s.
Fixpoint hdr_get (name : list Z) (hs : list hdr) : option (list Z) :=
  match hs with
  | [] => None
  | (k, v) :: hs' => if lz_eqb (lower k) (lower name) then Some v else hdr_get name hs'
  end.

(* UTF-8 encoding of a str; None = UnicodeEncodeError (surrogate) *)
Definition utf8_1 (c : Z) : option (list Z) :=
  if c <? 0 then None
  else if c <? 128 then Some [c]
  else if c <? 2048 then Some [192 + c / 64; 128 + c mod 64]
  else if (55296 <=? c) && (c <=? 57343) then None
  else if c <? 65536 then Some [224 + c / 4096; 128 + (c / 64) mod 64; 128 + c mod 64]
  else if c <? 1114112 then
    Some [240 + c / 262144; 128 + (c / 4096) mod 64; 128 + (c / 64) mod 64; 128 + c mod 64]
  else None.
Fixpoint utf8 (s : list Z) : option (list Z) :=
  match s with
  | [] => Some []
  | c :: s' => match utf8_1 c, utf8 s' with
               | Some a, Some b => Some (a ++ b)
               | _, _ => None
               end
  end.

Section Cycle.
  (* http.client.responses: which codes exist, and their phrase *)
  Variable known_status : Z -> bool.
  Variable reason : Z -> list Z.
  (* isinstance(error, registered class) *)
  Variable isinst : exn -> Z -> bool.
  (* built-in pages (results.py) as responses; [builtin c]: c in default_states *)
  Variable builtin : Z -> bool.
  Variable page : Z -> resp.          (* page 500 = internal_server_error, page 501 = not_implemented *)

  Definition xpb : hdr := (s2l "X-Powered-By", s2l "Poor WSGI for Python").
  Definition html : list Z := s2l "text/html; charset=utf-8".
  Definition ise : resp := page 500.

  (* ---------- make_response: every failure inside becomes ResponseError *)
  (* Headers(collection): every name and value goes through iso88591 (UTF-8
     bytes read as latin-1); a lone surrogate makes it raise ValueError *)
  Fixpoint iso_pairs (l : list hdr) : option (list hdr) :=
    match l with
    | [] => Some []
    | (k, v) :: l' =>
        match utf8 k, utf8 v, iso_pairs l' with
        | Some k', Some v', Some r => Some ((k', v') :: r)
        | _, _, _ => None
        end
    end.
  Definition mk_headers (h : pyval) : option (list hdr) :=
    match h with
    | PNone => Some [xpb]
    | PHdrs (Some l) => iso_pairs l
    | _ => None
    end.
  Definition mk_status (s : pyval) : option Z :=
    match s with PInt z => if known_status z then Some z else None | _ => None end.
  (* content_type must be a str.  DEVIATION (known finding
     surrogate-content-type-escapes): a str containing a lone surrogate is
     accepted by the constructors and makes Headers.add raise ValueError at
     emission time; the model refuses it here (ResponseError) instead, so
     [emit] stays total.  The correspondence never generates that input. *)
  Definition mk_ctype (c : pyval) : option (list Z) :=
    match c with
    | PStr s => match utf8 s with Some _ => Some s | None => None end
    | _ => None
    end.
  Definition body_len (chunks : list (list Z)) : Z :=
    fold_right (fun c n => Z.of_nat (List.length c) + n) 0 chunks.

  Definition make_response (data ctype headers status : pyval) : option resp :=
    match mk_headers headers, mk_status status with
    | Some hs, Some st =>
        let base (ct : list Z) (b : list Z) :=
          mkResp CBase st hs ct (Z.of_nat (List.length b)) [b] in
        let json (j : option (list Z)) :=
          match j with
          | Some t => option_map (base (s2l "application/json; charset=utf-8")) (utf8 t)
          | None => None
          end in
        match data with
        | PStr s => match mk_ctype ctype, utf8 s with
                    | Some ct, Some b => Some (base ct b) | _, _ => None end
        | PBytes b => option_map (fun ct => base ct b) (mk_ctype ctype)
        | PDict j => json j
        | PListJson j => json j
        | PNone => Some (mkResp CNoContent (if st =? 200 then 204 else st) hs [] 0 [])
        | PListBytes ch | PIter ch =>
            option_map (fun ct => mkResp CBase st hs ct 0 ch) (mk_ctype ctype)
        | _ => None
        end
    | _, _ => None
    end.

  (* wsgi.to_response *)
  Definition to_response (v : pyval) : result resp :=
    let mr d c h s := match make_response d c h s with
                      | Some r => Val r | None => Exc ERespErr end in
    match v with
    | PResp r => Val r
    | PTuple [d] => mr d (PStr html) PNone (PInt 200)
    | PTuple [d; c] => mr d c PNone (PInt 200)
    | PTuple [d; c; h] => mr d c h (PInt 200)
    | PTuple [d; c; h; s] => mr d c h s
    | PTuple _ => Exc ETypeErr
    | d => mr d (PStr html) PNone (PInt 200)
    end.

  (* HTTPException.make_response *)
  Definition exc_response (e : exn) : option resp :=
    match e with
    | EHttpResp r => Some r
    | EHttp c =>
        if c =? 0 then Some (mkResp CDeclined 200 [] [] 0 [])
        else if c =? 200 then Some (mkResp CNoContent 204 [xpb] [] 0 [])  (* EmptyResponse *)
        else None
    | _ => None
    end.
  Definition is_http (e : exn) : bool :=
    match e with EHttp _ | EHttpResp _ => true | _ => false end.

  (* running a user callable *)
  Definition call (b : beh) (given : option resp) : result pyval :=
    match b with
    | Ret v => Val v
    | Pass => match given with Some r => Val (PResp r) | None => Val PNone end
    | Abort c => Exc (EHttp c)
    | AbortResp r => Exc (EHttpResp r)
    | Throw cls => Exc (EUser cls)
    | ThrowConn => Exc EConn
    | ThrowExit => Exc EExit
    end.

  Fixpoint assoc2 (k : Z * Z) (l : list ((Z * Z) * beh)) : option beh :=
    match l with
    | [] => None
    | ((a, b), h) :: l' =>
        if (a =? fst k) && (b =? snd k) then Some h else assoc2 k l'
    end.
  Fixpoint assoc1 (k : Z) (l : list (Z * beh)) : option beh :=
    match l with
    | [] => None
    | (a, h) :: l' => if a =? k then Some h else assoc1 k l'
    end.

  (* built-in status page; the 401 page needs a realm under Digest auth and
     raises RuntimeError without one (abort(401) carries none) *)
  Definition builtin_page (a : app) (code : Z) : result resp :=
    if (code =? 401) && digest_auth a then Exc (EUser (-1)) else Val (page code).

  (* state_from_table: (response, events) ; total by its own guards *)
  Definition state_from_table (a : app) (m code : Z) : result resp * list event :=
    match assoc2 (code, m) (shandlers a) with
    | Some h =>
        (match call h None with
         | Val v => match to_response v with
                    | Val r => Val r
                    | Exc _ => Val ise              (* except BaseException *)
                    end
         | Exc e => if is_http e
                    then match exc_response e with
                         | Some r => Val r | None => Val ise end
                    else Val ise
         end, [EvStatus code])
    | None =>
        if builtin code then
          (match builtin_page a code with
           | Val r => Val r
           | Exc _ => Val ise                        (* except Exception *)
           end, [])
        else (Val (page 501), [])
    end.

  Fixpoint find_ehandler (e : exn) (m : Z) (l : list (Z * list (Z * beh)))
    : option (Z * beh) :=
    match l with
    | [] => None
    | (cls, hd) :: l' =>
        if isinst e cls then
          match assoc1 m hd with
          | Some h => Some (cls, h)
          | None => find_ehandler e m l'
          end
        else find_ehandler e m l'
    end.

  (* error_from_table: None = no handler registered *)
  Definition error_from_table (a : app) (m : Z) (e : exn)
    : result (option resp) * list event :=
    match find_ehandler e m (ehandlers a) with
    | None => (Val None, [])
    | Some (cls, h) =>
        match call h None with
        | Val v => (match to_response v with
                    | Val r => Val (Some r)
                    | Exc _ => Val (Some ise)
                    end, [EvError cls])
        | Exc e' =>
            if is_http e' then
              match exc_response e' with
              | Some r => (Val (Some r), [EvError cls])
              | None =>
                  match e' with
                  | EHttp c =>
                      let '(r, ev) := state_from_table a m c in
                      (match r with Val x => Val (Some x) | Exc x => Exc x end,
                       EvError cls :: ev)
                  | _ => (Val (Some ise), [EvError cls])
                  end
              end
            else (Val (Some ise), [EvError cls])
        end
    end.

  (* handler_from_before *)
  Fixpoint run_before (hooks : list beh) (i : nat) : result unit * list event :=
    match hooks with
    | [] => (Val tt, [])
    | b :: hooks' =>
        match call b None with
        | Val _ => let '(r, ev) := run_before hooks' (S i) in (r, EvBefore i :: ev)
        | Exc e => (Exc e, [EvBefore i])
        end
    end.

  (* the try body: Request(), handler_from_table, to_response *)
  Definition try_body (a : app) (f : facts) : result resp * list event :=
    match fconstruct f with
    | Some e => (Exc e, [])
    | None =>
        match fleaf f with
        | LPre e => (Exc e, [])
        | lf =>
            let '(rb, evb) := run_before (before a) 0 in
            match rb with
            | Exc e => (Exc e, evb)
            | Val _ =>
                match lf with
                | LEndpoint b =>
                    (match call b None with
                     | Val v => to_response v
                     | Exc e => Exc e
                     end, evb ++ [EvEndpoint])
                | LRaise e => (Exc e, evb)
                | LValue v => (to_response v, evb)
                | LPre e => (Exc e, evb)
                end
            end
        end
    end.

  Inductive phase1 := P1Resp (r : resp) | P1NoAnswer | P1Escaped (e : exn).

  (* the except ladder of __request__ *)
  Definition ladder (a : app) (f : facts) : phase1 * list event :=
    let m := fmethod f in
    let '(tb, ev) := try_body a f in
    match tb with
    | Val r => (P1Resp r, ev)
    | Exc e =>
        if is_http e then
          match exc_response e with
          | Some r => (P1Resp r, ev)
          | None =>
              match e with
              | EHttp c =>
                  let '(r, ev2) := state_from_table a m c in
                  (match r with Val x => P1Resp x | Exc x => P1Escaped x end, ev ++ ev2)
              | _ => (P1Escaped e, ev)
              end
          end
        else match e with
             | EConn | EExit => (P1NoAnswer, ev)
             | ERespErr =>
                 let '(r, ev2) := state_from_table a m 500 in
                 (match r with Val x => P1Resp x | Exc _ => P1Resp ise end, ev ++ ev2)
             | _ =>
                 let '(r, ev2) := error_from_table a m e in
                 match r with
                 | Val (Some x) => (P1Resp x, ev ++ ev2)
                 | Val None =>
                     let '(r3, ev3) := state_from_table a m 500 in
                     (match r3 with Val x => P1Resp x | Exc _ => P1Resp ise end,
                      ev ++ ev2 ++ ev3)
                 | Exc _ => (P1Resp ise, ev ++ ev2)
                 end
             end
    end.

  (* the after-hook loop with its fallback *)
  Fixpoint run_after (hooks : list beh) (i : nat) (r : resp)
    : result resp * list event :=
    match hooks with
    | [] => (Val r, [])
    | b :: hooks' =>
        match call b (Some r) with
        | Val v => match to_response v with
                   | Val r' => let '(x, ev) := run_after hooks' (S i) r' in
                               (x, EvAfter i r :: ev)
                   | Exc e => (Exc e, [EvAfter i r])
                   end
        | Exc e => (Exc e, [EvAfter i r])
        end
    end.

  Definition after_phase (a : app) (m : Z) (r : resp) : result resp * list event :=
    let '(x, ev) := run_after (after a) 0 r in
    match x with
    | Val r' => (Val r', ev)
    | Exc e =>
        let '(r2, ev2) := error_from_table a m e in
        match r2 with
        | Val (Some y) => (Val y, ev ++ ev2)
        | Val None =>
            let '(r3, ev3) := state_from_table a m 500 in (r3, ev ++ ev2 ++ ev3)
        | Exc z => (Exc z, ev ++ ev2)
        end
    end.

  (* ---------- emission: response(start_response) *)
  Definition status_line (st : Z) : list Z := dec st ++ [32] ++ reason st.
  Record emitted := mkEmitted {
    calls : list (list Z * list hdr);     (* start_response invocations *)
    chunks : list (list Z) }.

  (* Headers.iso88591 on a value known to be encodable *)
  Definition iso (s : list Z) : list Z :=
    match utf8 s with Some b => b | None => s end.

  Definition has_hdr (name : list Z) (hs : list hdr) : bool :=
    match hdr_get name hs with Some _ => true | None => false end.

  (* BaseResponse.__start_response__ / NoContentResponse / Declined.__call__;
     total: no operation in it can raise for these inputs *)
  Definition emit (r : resp) : emitted :=
    match rcls r with
    | CDeclined => mkEmitted [] []
    | CNoContent => mkEmitted [(status_line (rstatus r), rhdrs r)] []
    | CBase =>
        if rstatus r =? 304 then
          mkEmitted [(status_line (rstatus r), rhdrs r)] (rbody r)
        else
          let h1 := rhdrs r in
          (* if self.content_type and 'Content-Type' not in headers: add *)
          let h2 := match rctype r with
                    | [] => h1
                    | ct => if has_hdr (s2l "Content-Type") h1 then h1
                            else h1 ++ [(s2l "Content-Type", iso ct)]
                    end in
          let h3 := if rclen r =? 0 then h2
                    else if has_hdr (s2l "Content-Length") h2 then h2
                    else h2 ++ [(s2l "Content-Length", dec (rclen r))] in
          mkEmitted [(status_line (rstatus r), h3)] (rbody r)
    end.

  Inductive outcome :=
    | Answered (e : emitted)
    | Escaped (x : exn).

  Definition request_cycle (a : app) (f : facts) : outcome * list event :=
    let '(p, ev) := ladder a f in
    match p with
    | P1NoAnswer => (Answered (mkEmitted [] []), ev)
    | P1Escaped e => (Escaped e, ev)
    | P1Resp r =>
        let '(x, ev2) := after_phase a (fmethod f) r in
        match x with
        | Exc e => (Escaped e, ev ++ ev2)
        | Val r' => (Answered (emit r'), ev ++ ev2)
        end
    end.

  (* the response handed to the after hooks (C04: must not depend on them) *)
  Definition pre_after (a : app) (f : facts) : phase1 := fst (ladder a f).
End Cycle.
