(* Model for C17 (a response depends only on its own request and the
   configuration).

   Part A: the one request-time routine that builds a derived table from the
   process-wide default status table and an application's table
   (results.debug_info), on an explicit heap of dictionary objects, so that
   aliasing of the inner dictionaries is expressible.
   Part B: requests as sequences of atomic steps over (shared state, own
   local state), for the schedule theorem.
   Part C: request sequences over the dispatch model. *)
From Coq Require Import ZArith List Bool Arith.
Require Import PW.lib.Val PW.model.Dispatch.
Import ListNotations.
Open Scope Z_scope.

(* ---------- Part A *)
Definition dict := list (Z * Z).            (* method bit -> handler id *)
Definition heap := list (Z * dict).         (* object id -> dictionary object *)
Definition table := list (Z * Z).           (* status code -> object id *)

Fixpoint hget (h : heap) (id : Z) : option dict :=
  match h with
  | [] => None
  | (i, d) :: h' => if i =? id then Some d else hget h' id
  end.
Fixpoint hset (h : heap) (id : Z) (d : dict) : heap :=
  match h with
  | [] => [(id, d)]
  | (i, x) :: h' => if i =? id then (i, d) :: h' else (i, x) :: hset h' id d
  end.
Definition fresh (h : heap) : Z := 1 + fold_right (fun kv m => Z.max (fst kv) m) 0 h.

(* dict.update: later keys replace/append *)
Fixpoint dset (d : dict) (k v : Z) : dict :=
  match d with
  | [] => [(k, v)]
  | (a, x) :: d' => if a =? k then (a, v) :: d' else (a, x) :: dset d' k v
  end.
Definition dupdate (d u : dict) : dict := fold_left (fun acc kv => dset acc (fst kv) (snd kv)) u d.

Fixpoint tget (t : table) (k : Z) : option Z :=
  match t with
  | [] => None
  | (a, id) :: t' => if a =? k then Some id else tget t' k
  end.

(* _tmp_shandlers.update((key, val.copy()) for key, val in default_states.items()) *)
Fixpoint copy_all (h : heap) (t : table) : heap * table :=
  match t with
  | [] => (h, [])
  | (k, id) :: t' =>
      let d := match hget h id with Some d => d | None => [] end in
      let n := fresh h in
      let '(h', r) := copy_all (hset h n d) t' in
      (h', (k, n) :: r)
  end.

(* for key, val in app.states.items(): merge or alias *)
Fixpoint merge_user (h : heap) (tmp : table) (user : table) : heap * table :=
  match user with
  | [] => (h, tmp)
  | (k, id) :: user' =>
      match tget tmp k with
      | Some tid =>
          let dt := match hget h tid with Some d => d | None => [] end in
          let du := match hget h id with Some d => d | None => [] end in
          merge_user (hset h tid (dupdate dt du)) tmp user'
      | None => merge_user h (tmp ++ [(k, id)]) user'
      end
  end.

Definition debug_info_merge (h : heap) (defaults user : table) : heap * table :=
  let '(h1, tmp) := copy_all h defaults in merge_user h1 tmp user.

(* the variant without .copy() (what the code did before the fix): the merged
   table shares the inner dictionaries of default_states *)
Definition debug_info_merge_aliasing (h : heap) (defaults user : table) : heap * table :=
  merge_user h defaults user.

(* ---------- Part B *)
Section Sched.
  Variables (G L : Type).
  Variable rstep : G -> L -> L.     (* reads shared state, rewrites own state *)
  Fixpoint upd (i : nat) (f : L -> L) (ls : list L) : list L :=
    match ls, i with
    | [], _ => []
    | x :: r, O => f x :: r
    | x :: r, S j => x :: upd j f r
    end.
  Definition sstep (c : G * list L) (i : nat) : G * list L :=
    (fst c, upd i (rstep (fst c)) (snd c)).
  Definition run_schedule (sched : list nat) (c : G * list L) := fold_left sstep sched c.
  Fixpoint iter (n : nat) (f : L -> L) (x : L) : L :=
    match n with O => x | S m => iter m f (f x) end.
End Sched.

(* ---------- Part C: a process = shared tables + applications; serving a
   request returns the answer and the process state afterwards *)
Section Seq.
  Variable known_status : Z -> bool.
  Variable reason : Z -> list Z.
  Variable isinst : exn -> Z -> bool.
  Record world := mkWorld {
    w_builtin : Z -> bool;           (* default_states keys *)
    w_page : Z -> resp;              (* built-in pages *)
    w_apps : list app }.
  Definition serve (w : world) (req : nat * facts) : outcome * world :=
    match nth_error (w_apps w) (fst req) with
    | Some a => (fst (request_cycle known_status reason isinst
                        (w_builtin w) (w_page w) a (snd req)), w)
    | None => (Escaped ETypeErr, w)
    end.
  Fixpoint serve_seq (w : world) (reqs : list (nat * facts)) : list outcome :=
    match reqs with
    | [] => []
    | r :: rest => let '(o, w') := serve w r in o :: serve_seq w' rest
    end.
End Seq.

(* correspondence entry point for Part A *)
Definition enc_dict (d : dict) : V := VL (map (fun kv => VL [VZ (fst kv); VZ (snd kv)]) d).
Definition run_merge (h : heap) (defaults user : table) : V :=
  let '(h', tmp) := debug_info_merge h defaults user in
  VL [ VL (map (fun kv => VL [VZ (fst kv);
                              enc_dict (match hget h' (snd kv) with Some d => d | None => [] end)]) tmp);
       VL (map (fun kv => VL [VZ (fst kv);
                              enc_dict (match hget h' (snd kv) with Some d => d | None => [] end)]) defaults) ].
