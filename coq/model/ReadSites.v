(* The places where request.py and fieldstorage.py consume an input stream,
   as the read plan of QueryForm.v accounts for them (property C10: the body
   is never read beyond the declared Content-Length).  The census itself is
   generated from the source on every run (gen/ReadSitesGen.v by
   harness/py2v_reads.py); this file is the policy it is judged by:
   (function, receiver, method, arguments) with the source text of receiver
   and arguments. *)
From Coq Require Import List String Bool.
Import ListNotations.
Open Scope string_scope.

Definition read_site := (string * string * string * string)%type.

Definition allowed_read_sites : list read_site :=
  [ (* a parsed field reads back its own temporary file, not the input *)
    ("fieldstorage.FieldStorage.value", "self.file", "read", "");
    (* the line parser (multipart): runs on the pre-buffered body or on
       CachedInput, both limited to the declared length; on the raw stream
       it is the recorded finding multipart-raw-stream-reads-past-... *)
    ("fieldstorage.FieldStorageParser._skip_to_boundary", "self.input",
     "readline", "");
    ("fieldstorage.FieldStorageParser.read_lines_to_eof", "self.input",
     "readline", "1 << 16");
    ("fieldstorage.FieldStorageParser.read_lines_to_outerboundary",
     "self.input", "readline", "1 << 16");
    ("fieldstorage.FieldStorageParser.read_multi", "self.input", "readline",
     "");
    ("fieldstorage.FieldStorageParser.skip_lines", "self.input", "readline",
     "1 << 16");
    (* a single part with a length: blocks of at most what is still due *)
    ("fieldstorage.FieldStorageParser.read_binary", "self.input", "read",
     "min(todo, self.BUFSIZE)");
    (* urlencoded: one read of exactly the declared length *)
    ("fieldstorage.FieldStorageParser.read_urlencoded", "self.input", "read",
     "self.length");
    (* CachedInput: model/CachedInput.v (property C09) *)
    ("request.CachedInput.read", "self.__file", "read", "size");
    ("request.CachedInput.readline", "self.__file", "read", "n_size");
    (* Request: pre-buffering, read(), data, chunked reads *)
    ("request.Request.__init__", "self", "read", "");
    ("request.Request.__init__", "self.__file", "read",
     "self.__content_length");
    ("request.Request.__read", "self.__file", "read", "length");
    ("request.Request.data", "self.__file", "read", "");
    ("request.Request.read", "self", "read", "length");
    ("request.Request.read", "self.__file", "read", "self.__content_length");
    ("request.Request.read_chunk", "self.__file", "read", "size");
    ("request.Request.read_chunk", "self.__file", "readline", "") ].

Definition site_eqb (a b : read_site) : bool :=
  match a, b with
  | (f, r, m, x), (f', r', m', x') =>
      String.eqb f f' && String.eqb r r' && String.eqb m m' && String.eqb x x'
  end.

Definition sites_ok (sites : list read_site) : bool :=
  forallb (fun s => existsb (site_eqb s) allowed_read_sites) sites.

Lemma site_eqb_eq a b : site_eqb a b = true -> a = b.
Proof.
  destruct a as [[[f r] m] x], b as [[[f' r'] m'] x']. unfold site_eqb.
  intros H. repeat (apply andb_true_iff in H; destruct H as [H ?]).
  repeat match goal with
         | E : String.eqb _ _ = true |- _ => apply String.eqb_eq in E
         end.
  now subst.
Qed.

Lemma sites_ok_spec sites :
  sites_ok sites = true -> forall s, In s sites -> In s allowed_read_sites.
Proof.
  unfold sites_ok. intros H s Hin. rewrite forallb_forall in H.
  specialize (H s Hin). apply existsb_exists in H.
  destruct H as [a [Ha He]]. apply site_eqb_eq in He. now subst.
Qed.
