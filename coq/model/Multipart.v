(* Model of the multipart/form-data reader of poorwsgi/fieldstorage.py (C08):
     valid_boundary, FieldStorageParser.parse / _parse_content_type /
     _skip_to_boundary / read_multi / read_single / read_lines /
     read_lines_to_outerboundary / _write (spill threshold) / make_file
     (file factory calls), headers.parse_header / _parseparam,
   over an abstract *line source*.

   bytes and str are [list Z] (byte values / code points).

   Line source.  The input object is a state [s : St] with
   [rl size s = (line, s')] for [input.readline(size)] ([size < 0]: no
   limit) and a ghost view [rem s] (the bytes not yet handed out; used only
   by the contract [good_reader] and the theorems).  Two concrete readers
   over [St = bytes], [rem = id]:
     [lf_line]    io.BytesIO.readline: cut after the first LF, at most size bytes
     [crlf_line]  poorwsgi.request.CachedInput.readline seen from outside
                  (block structure abstracted; C09 relates it to the blocks):
                  cut after the first CRLF lying within the first size bytes,
                  else size bytes; a bare LF does not end a line.
   Every Python loop has explicit fuel and the outcome [OutOfFuel].

   What is *not* modelled and therefore reported as [Unmodelled]:
   parts whose own Content-Type is application/x-www-form-urlencoded or
   multipart/* (read_urlencoded / nested read_multi), a top-level type that
   is not multipart/*, part header lines starting with "From ".  Part
   headers are parsed the way email.feedparser.FeedParser (compat32, CPython
   3.12) does for everything an RFC 7578 encoder produces (Name: value lines
   ended by CRLF, continuation lines, blank line); FeedParser itself is
   trusted.  Text decoding is [utf8_decode], exact on well-formed UTF-8 and
   on bytes that can never start a sequence (one U+FFFD each); other
   malformed sequences are outside the model.  It is applied piece by piece
   exactly where _write decodes, so the 64 KiB cut is visible. *)
From Coq Require Import ZArith List Bool String.
Require Import PW.lib.Val.
Import ListNotations.
Open Scope string_scope.
Open Scope list_scope.
Open Scope Z_scope.

Definition bytes := list Z.
Definition len {A} (l : list A) : Z := Z.of_nat (List.length l).
Definition is_nil {A} (l : list A) : bool :=
  match l with [] => true | _ :: _ => false end.

(* reversed list, linear time (= List.rev, see rv_rev in the proofs) *)
Definition rv (l : list Z) : list Z := rev_append l [].

(* s.startswith(p) *)
Fixpoint prefixb (p s : list Z) : bool :=
  match p, s with
  | [], _ => true
  | x :: p', y :: s' => (x =? y) && prefixb p' s'
  | _ :: _, [] => false
  end.

(* ------------------------------------------------------------ whitespace *)
(* bytes.isspace *)
Definition is_ws (c : Z) : bool := (c =? 32) || ((9 <=? c) && (c <=? 13)).
(* str.isspace *)
Definition is_ws_u (c : Z) : bool :=
  is_ws c || ((28 <=? c) && (c <=? 31)) || (c =? 133) || (c =? 160) ||
  (c =? 5760) || ((8192 <=? c) && (c <=? 8202)) || (c =? 8232) ||
  (c =? 8233) || (c =? 8239) || (c =? 8287) || (c =? 12288).

Fixpoint lstrip_by (ws : Z -> bool) (s : list Z) : list Z :=
  match s with
  | [] => []
  | c :: r => if ws c then lstrip_by ws r else s
  end.
Definition rstrip_by (ws : Z -> bool) (s : list Z) : list Z :=
  rv (lstrip_by ws (rv s)).
Definition strip_by (ws : Z -> bool) (s : list Z) : list Z :=
  lstrip_by ws (rstrip_by ws s).

Definition rstrip := rstrip_by is_ws.          (* bytes.rstrip() *)
Definition strip := strip_by is_ws.            (* bytes.strip() *)
Definition strip_u := strip_by is_ws_u.        (* str.strip() *)

(* --------------------------------------------------------------- readers *)
(* io.BytesIO.readline(k) on the unread bytes [s]; k < 0: no limit *)
Fixpoint lf_line (k : Z) (s : bytes) : bytes * bytes :=
  match s with
  | [] => ([], [])
  | x :: r =>
      if k =? 0 then ([], s)
      else if x =? 10 then ([x], r)
      else let (l, t) := lf_line (k - 1) r in (x :: l, t)
  end.

(* CachedInput.readline(k) on the bytes still to come (buffer ++ what the
   declared length still allows to read); k < 0: no limit.  A CRLF ends the
   line only if both bytes fit into the k bytes. *)
Fixpoint crlf_line (k : Z) (s : bytes) : bytes * bytes :=
  match s with
  | [] => ([], [])
  | x :: r =>
      if k =? 0 then ([], s)
      else
        match r with
        | y :: r' =>
            if (x =? 13) && (y =? 10) && negb (k =? 1) then ([x; y], r')
            else let (l, t) := crlf_line (k - 1) r in (x :: l, t)
        | [] => ([x], [])
        end
  end.

(* ------------------------------------------------------ valid_boundary *)
Definition printable (c : Z) : bool := (32 <=? c) && (c <=? 126).
Definition graphic (c : Z) : bool := (33 <=? c) && (c <=? 126).
(* re "^[ -~]{0,200}[!-~]$" ; "$" also matches before one final "\n" *)
Definition valid_boundary (b : bytes) : bool :=
  let r := rv b in
  let r' := match r with
            | c :: t => if c =? 10 then t else r
            | [] => r
            end in
  match r' with
  | c :: t => graphic c && forallb printable t && (len t <=? 200)
  | [] => false
  end.

(* --------------------------------------------------------------- UTF-8 *)
Definition cont (c : Z) : bool := (128 <=? c) && (c <=? 191).
Fixpoint utf8_decode (s : bytes) : list Z :=
  match s with
  | [] => []
  | a :: r =>
      if a <? 128 then a :: utf8_decode r
      else
        match r with
        | b :: r2 =>
            if (194 <=? a) && (a <=? 223) && cont b
            then ((a - 192) * 64 + (b - 128)) :: utf8_decode r2
            else
              match r2 with
              | c :: r3 =>
                  if (224 <=? a) && (a <=? 239) && cont b && cont c &&
                     (negb (a =? 224) || (160 <=? b)) &&
                     (negb (a =? 237) || (b <=? 159))
                  then ((a - 224) * 4096 + (b - 128) * 64 + (c - 128))
                         :: utf8_decode r3
                  else
                    match r3 with
                    | d :: r4 =>
                        if (240 <=? a) && (a <=? 244) && cont b && cont c &&
                           cont d && (negb (a =? 240) || (144 <=? b)) &&
                           (negb (a =? 244) || (b <=? 143))
                        then ((a - 240) * 262144 + (b - 128) * 4096 +
                              (c - 128) * 64 + (d - 128)) :: utf8_decode r4
                        else 65533 :: utf8_decode r
                    | [] => 65533 :: utf8_decode r
                    end
              | [] => 65533 :: utf8_decode r
              end
        | [] => [65533]
        end
  end.

Definition utf8_enc1 (c : Z) : bytes :=
  if c <? 128 then [c]
  else if c <? 2048 then [192 + c / 64; 128 + c mod 64]
  else if c <? 65536 then [224 + c / 4096; 128 + (c / 64) mod 64; 128 + c mod 64]
  else [240 + c / 262144; 128 + (c / 4096) mod 64; 128 + (c / 64) mod 64;
        128 + c mod 64].
Definition utf8_encode (s : list Z) : bytes := flat_map utf8_enc1 s.

(* ------------------------------------------- headers.parse_header (str) *)
(* s.find(c, start) for 0 <= start; -1 when absent *)
Fixpoint find_from (c : Z) (s : list Z) (i start : Z) : Z :=
  match s with
  | [] => -1
  | x :: r => if (start <=? i) && (x =? c) then i
              else find_from c r (i + 1) start
  end.
Definition find (c : Z) (s : list Z) (start : Z) : Z := find_from c s 0 start.
Definition slice_to (s : list Z) (e : Z) : list Z := firstn (Z.to_nat e) s.
Definition slice_from (s : list Z) (b : Z) : list Z := skipn (Z.to_nat b) s.

(* the inner while of _parseparam: a scan from the left.  [s] is the text
   from index [e] on, [quoted] the flag, the result the value of [end] when
   the loop is left: inside a quoted string a backslash escapes the next
   character (end += 1 twice; that is len(s) + 1 when the backslash is the
   last character, which the slices take as len(s), as Python does), a
   double quote toggles the flag, the first ';' outside quotes breaks *)
Fixpoint scan_end (s : list Z) (quoted : bool) (e : Z) : Z :=
  match s with
  | [] => e                                        (* end < len(s) fails *)
  | c :: r =>
      if quoted && (c =? 92) then
        match r with
        | _ :: r' => scan_end r' quoted (e + 2)
        | [] => e + 2
        end
      else if c =? 34 then scan_end r (negb quoted) (e + 1)
      else if (c =? 59) && negb quoted then e      (* break *)
      else scan_end r quoted (e + 1)
  end.
(* list(_parseparam(s)) *)
Fixpoint parseparam_fuel (fuel : nat) (s : list Z) : list (list Z) :=
  match fuel with
  | O => []
  | S f =>
      match s with
      | c :: s1 =>
          if c =? 59 then
            let e := scan_end s1 false 0 in
            strip_u (slice_to s1 e) :: parseparam_fuel f (slice_from s1 e)
          else []
      | [] => []
      end
  end.
Definition parseparam (s : list Z) : list (list Z) :=
  parseparam_fuel (S (List.length s)) s.

(* s.replace(ab, rep), two-character pattern *)
Fixpoint replace2 (a b : Z) (rep : list Z) (s : list Z) : list Z :=
  match s with
  | [] => []
  | c :: r =>
      match r with
      | d :: r' => if (c =? a) && (d =? b) then rep ++ replace2 a b rep r'
                   else c :: replace2 a b rep r
      | [] => [c]
      end
  end.

(* str.lower() restricted to U+0000..U+00FF *)
Definition lower_c (c : Z) : Z :=
  if ((65 <=? c) && (c <=? 90)) ||
     ((192 <=? c) && (c <=? 222) && negb (c =? 215)) then c + 32 else c.
Definition lower (s : list Z) : list Z := map lower_c s.

Definition unquote (v : list Z) : list Z :=
  if (2 <=? len v) && (hd 0 v =? 34) && (last v 0 =? 34) then
    replace2 92 34 [34] (replace2 92 92 [92] (removelast (tl v)))
  else v.

Definition pdict : Type := list (list Z * list Z).
(* d.get(k) where later assignments overwrite earlier ones *)
Fixpoint pd_get (d : pdict) (k : list Z) : option (list Z) :=
  match d with
  | [] => None
  | (k', v) :: t =>
      match pd_get t k with
      | Some v' => Some v'
      | None => if lz_eqb k' k then Some v else None
      end
  end.

Definition header_param (p : list Z) : list (list Z * list Z) :=
  let i := find 61 p 0 in
  if 0 <=? i then
    [(lower (strip_u (slice_to p i)), unquote (strip_u (slice_from p (i + 1))))]
  else [].

(* parse_header(line) = (key, pdict); parts.__next__() cannot fail because
   the text handed to _parseparam starts with ';' *)
Definition parse_header (line : list Z) : list Z * pdict :=
  match parseparam (59 :: line) with
  | [] => ([], [])
  | key :: parts => (key, flat_map header_param parts)
  end.

(* ------------------------------- part headers (FeedParser, compat32) *)
Definition starts_lf (s : list Z) : bool :=
  match s with c :: _ => c =? 10 | [] => false end.
(* StringIO(newline='').readlines(): a line ends after LF, CRLF or a CR not
   followed by LF; [cur] is the current line reversed *)
Fixpoint splitlines (cur : list Z) (s : list Z) : list (list Z) :=
  match s with
  | [] => if is_nil cur then [] else [rv cur]
  | c :: r =>
      if (c =? 10) || ((c =? 13) && negb (starts_lf r))
      then rv (c :: cur) :: splitlines [] r
      else splitlines (c :: cur) r
  end.

Definition is_hname_c (c : Z) : bool :=
  (33 <=? c) && (c <=? 126) && negb (c =? 58).
Definition is_blank_c (c : Z) : bool := (c =? 32) || (c =? 9).
Definition is_crlf_c (c : Z) : bool := (c =? 13) || (c =? 10).
(* headerRE = ^(From |[\041-\071\073-\176]*:|[\t ]) *)
Definition header_line (l : list Z) : bool :=
  prefixb (s2l "From ") l ||
  (match lstrip_by is_hname_c l with c :: _ => c =? 58 | [] => false end) ||
  (match l with c :: _ => is_blank_c c | [] => false end).
Fixpoint take_header_lines (ls : list (list Z)) : list (list Z) :=
  match ls with
  | [] => []
  | l :: t => if header_line l then l :: take_header_lines t else []
  end.

(* FeedParser._parse_headers + compat32.header_source_parse.
   [cur] = (name, first value text, continuation text) of the open header *)
Definition close_hdr (cur : option (list Z * list Z))
  : list (list Z * list Z) :=
  match cur with
  | Some (n, v) => [(n, rstrip_by is_crlf_c v)]
  | None => []
  end.
Fixpoint parse_hlines (ls : list (list Z)) (cur : option (list Z * list Z))
  : option (list (list Z * list Z)) :=
  match ls with
  | [] => Some (close_hdr cur)
  | l :: t =>
      if match l with c :: _ => is_blank_c c | [] => false end then
        match cur with
        | Some (n, v) => parse_hlines t (Some (n, v ++ l))
        | None => parse_hlines t None     (* FirstHeaderLineIsContinuation *)
        end
      else if prefixb (s2l "From ") l then None        (* not modelled *)
      else
        let i := find 58 l 0 in
        match parse_hlines t
                (if i =? 0 then None
                 else Some (slice_to l i,
                            lstrip_by is_blank_c (slice_from l (i + 1)))) with
        | Some rest => Some (close_hdr cur ++ rest)
        | None => None
        end
  end.
Definition part_headers (text : list Z) : option (list (list Z * list Z)) :=
  parse_hlines (take_header_lines (splitlines [] text)) None.

(* 'name' in headers / headers['name'] (first match, names compared in
   lower case) *)
Fixpoint hdr_get (hs : list (list Z * list Z)) (k : list Z) : option (list Z) :=
  match hs with
  | [] => None
  | (n, v) :: t => if lz_eqb (lower n) k then Some v else hdr_get t k
  end.

(* --------------------------------------- read_lines_to_outerboundary *)
(* the block  if delim == b"\r": ...  : the line, delim and last_line_lfend
   it leaves, or [CSkip] for its `continue` (the line was just the LF of a
   CRLF that the size limit divided) *)
Inductive carried :=
  | CLine (line delim : bytes) (lfend : bool)
  | CSkip.
Definition carry (delim : bytes) (lfend : bool) (line0 : bytes) : carried :=
  if lz_eqb delim [13] then
    match line0 with
    | c :: r =>
        if c =? 10 then (if is_nil r then CSkip else CLine r [13; 10] true)
        else CLine (13 :: line0) [] lfend
    | [] => CLine (13 :: line0) [] lfend
    end
  else CLine line0 delim lfend.

(* the boundary test; Some 0: next_boundary, Some 1: last_boundary *)
Definition boundary_hit (nb lb line : bytes) (lfend : bool) : option Z :=
  if prefixb [45; 45] line && lfend then
    let sl := rstrip line in
    if lz_eqb sl nb then Some 0
    else if lz_eqb sl lb then Some 1
    else None
  else None.

(* the endswith ladder: (line without its end, new delim, last_line_lfend) *)
Definition split_end (line : bytes) : bytes * bytes * bool :=
  match rv line with
  | x :: r =>
      if x =? 10 then
        match r with
        | y :: r' => if y =? 13 then (rv r', [13; 10], true)
                     else (rv r, [10], true)
        | [] => ([], [10], true)
        end
      else if x =? 13 then (rv r, [13], false)
      else (line, [], false)
  | [] => (line, [], false)
  end.

Inductive step_res :=
  | SBreak (done : Z)
  (* piece = the argument of _write, None when the round ended in `continue` *)
  | SCont (piece : option bytes) (delim : bytes) (lfend : bool).

(* one round of the while loop after a non-empty line was read *)
Definition rlob_step (nb lb delim : bytes) (lfend : bool) (line0 : bytes)
  : step_res :=
  match carry delim lfend line0 with
  | CSkip => SCont None [13; 10] true
  | CLine line odelim lfend1 =>
      match boundary_hit nb lb line lfend1 with
      | Some d => SBreak d
      | None =>
          let '(body, delim', lfend') := split_end line in
          SCont (Some (odelim ++ body)) delim' lfend'
      end
  end.

(* if self.limit is not None and 0 <= self.limit <= _read *)
Definition limit_hit (limit : option Z) (nread : Z) : bool :=
  match limit with
  | Some L => (0 <=? L) && (L <=? nread)
  | None => false
  end.

Inductive outcome (A : Type) :=
  | Ok (a : A)
  | Raised (e : string)
  | OutOfFuel
  | Unmodelled (why : string).
Arguments Ok {A} a.
Arguments Raised {A} e.
Arguments OutOfFuel {A}.
Arguments Unmodelled {A} why.

Record field := mkfield {
  f_name : option (list Z);        (* field.name *)
  f_filename : option (list Z);    (* field.filename *)
  f_type : list Z;                 (* field.type *)
  f_pieces : list bytes            (* the arguments of _write, in order *)
}.
(* self.filename is truthy: the part is stored as bytes and goes through
   the file factory *)
Definition is_file (f : field) : bool :=
  match f_filename f with Some (_ :: _) => true | _ => false end.
Definition f_bytes (f : field) : bytes := List.concat (f_pieces f).
Definition f_text (f : field) : list Z := List.concat (map utf8_decode (f_pieces f)).

(* what FieldStorageParser.parse takes from the headers of a part:
   (field.name, field.filename, field.type); [ob] is the outer boundary
   (non-empty inside a multipart body) *)
Definition part_meta (hdrs : list (list Z * list Z)) (ob : bytes)
  : option (list Z) * option (list Z) * list Z :=
  let pd := match hdr_get hdrs (s2l "content-disposition") with
            | Some v => snd (parse_header v)
            | None => []
            end in
  let ctype := match hdr_get hdrs (s2l "content-type") with
               | Some v => fst (parse_header v)
               | None => if is_nil ob
                         then s2l "application/x-www-form-urlencoded"
                         else s2l "text/plain"
               end in
  (pd_get pd (s2l "name"), pd_get pd (s2l "filename"), ctype).

Section Parser.
  Variable St : Type.
  Variable rl : Z -> St -> bytes * St.     (* input.readline(size) *)
  Variable maxline : Z.                    (* 1 << 16 *)

  (* (pieces written, self.done, _read = bytes_read of the part, input) *)
  Inductive rlob_res :=
    | RDone (pieces : list bytes) (done : Z) (nread : Z) (s : St)
    | RFuel.

  Fixpoint rlob (fuel : nat) (nb lb : bytes) (limit : option Z)
           (pieces : list bytes) (delim : bytes) (lfend : bool)
           (nread : Z) (s : St) : rlob_res :=
    match fuel with
    | O => RFuel
    | S f =>
        if limit_hit limit nread then RDone pieces 0 nread s
        else
          let (line0, s1) := rl maxline s in
          let nread1 := nread + len line0 in
          if is_nil line0 then RDone pieces (-1) nread1 s1
          else
            match rlob_step nb lb delim lfend line0 with
            | SBreak d => RDone pieces d nread1 s1
            | SCont piece delim' lfend' =>
                rlob f nb lb limit
                     (match piece with Some p => pieces ++ [p] | None => pieces end)
                     delim' lfend' nread1 s1
            end
    end.

  (* _skip_to_boundary after the valid_boundary test: (bytes_read, input) *)
  Fixpoint skip_to_boundary (fuel : nat) (dashb : bytes) (nread : Z) (s : St)
    : option (Z * St) :=
    match fuel with
    | O => None
    | S f =>
        let (line, s1) := rl (-1) s in
        let nread1 := nread + len line in
        if negb (lz_eqb (strip line) dashb) && negb (is_nil line)
        then skip_to_boundary f dashb nread1 s1
        else Some (nread1, s1)
    end.

  (* the inner while of read_multi: hdr_text *)
  Fixpoint read_hdr (fuel : nat) (acc : bytes) (s : St) : option (bytes * St) :=
    match fuel with
    | O => None
    | S f =>
        let (data, s1) := rl (-1) s in
        if is_nil (strip data) then Some (acc ++ data, s1)
        else read_hdr f (acc ++ data) s1
    end.

  (* field_parser.parse() of one part: (field, done, bytes_read, input).
     [ob] = outerboundary of the part = innerboundary of the form *)
  Definition parse_part (fuel : nat) (hdrs : list (list Z * list Z))
             (ob : bytes) (limit : option Z) (s : St)
    : outcome (field * Z * Z * St) :=
    let '(name, filename, ctype) := part_meta hdrs ob in
    if lz_eqb ctype (s2l "application/x-www-form-urlencoded")
    then Unmodelled "urlencoded part"
    else if lz_eqb (slice_to ctype 10) (s2l "multipart/")
    then Unmodelled "nested multipart"
    else if is_nil ob then Unmodelled "read_lines_to_eof"
    else
      (* read_single: self.length = -1 -> read_lines ->
         read_lines_to_outerboundary *)
      match rlob fuel (45 :: 45 :: ob) (45 :: 45 :: ob ++ [45; 45]) limit
                 [] [] true 0 s with
      | RFuel => OutOfFuel
      | RDone pieces done nread s' =>
          Ok (mkfield name filename ctype pieces, done, nread, s')
      end.

  (* the while True of read_multi *)
  Fixpoint part_loop (fuel fuel0 : nat) (ib : bytes) (limit : option Z)
           (length : Z) (bytes_read : Z) (acc : list field) (s : St)
    : outcome (list field * St) :=
    match fuel with
    | O => OutOfFuel
    | S f =>
        match read_hdr fuel0 [] s with
        | None => OutOfFuel
        | Some (hdr, s1) =>
            if is_nil hdr then Ok (acc, s1)
            else
              let bytes_read1 := bytes_read + len hdr in
              match part_headers (utf8_decode hdr) with
              | None => Unmodelled "From line in part headers"
              | Some hdrs =>
                  let plimit := match limit with
                                | Some L => Some (L - bytes_read1)
                                | None => None
                                end in
                  match parse_part fuel0 hdrs ib plimit s1 with
                  | Ok (fld, done, br, s2) =>
                      let bytes_read2 := bytes_read1 + br in
                      if negb (done =? 0) ||
                         ((length <=? bytes_read2) && (0 <? length))
                      then Ok (acc ++ [fld], s2)
                      else part_loop f fuel0 ib limit length bytes_read2
                                     (acc ++ [fld]) s2
                  | Raised e => Raised e
                  | OutOfFuel => OutOfFuel
                  | Unmodelled w => Unmodelled w
                  end
              end
        end
    end.

  (* read_multi of the top-level parser *)
  Definition read_multi (fuel : nat) (ib : bytes) (limit : option Z)
             (length : Z) (s : St) : outcome (list field * St) :=
    if negb (valid_boundary ib) then Raised "ValueError"
    else
      match skip_to_boundary fuel (45 :: 45 :: ib) 0 s with
      | None => OutOfFuel
      | Some (bytes_read, s1) =>
          part_loop fuel fuel ib limit length bytes_read [] s1
      end.

  (* FieldStorageParser(input, headers).parse() for request headers with the
     Content-Type value [ctype_hdr] (None: header absent) and Content-Length
     [clen] (-1: absent or not an int) *)
  Definition parse (fuel : nat) (ctype_hdr : option (list Z)) (clen : Z)
             (s : St) : outcome (list field * St) :=
    match ctype_hdr with
    | None => Unmodelled "urlencoded"
    | Some v =>
        let '(ctype, pd) := parse_header v in
        (* pdict['boundary'].encode('utf-8', 'replace'); a code point above
           127 gives bytes above 127, which valid_boundary refuses *)
        let ib := match pd_get pd (s2l "boundary") with
                  | Some b => map (fun c => if c <? 128 then c else 255) b
                  | None => []
                  end in
        let limit := if 0 <=? clen then Some clen else None in
        if lz_eqb ctype (s2l "application/x-www-form-urlencoded")
        then Unmodelled "urlencoded"
        else if lz_eqb (slice_to ctype 10) (s2l "multipart/")
        then read_multi fuel ib limit clen s
        else Unmodelled "read_single at top level"
    end.
End Parser.

Arguments RDone {St} pieces done nread s.
Arguments RFuel {St}.

(* ------------------------------------------------- RFC 7578 encoder *)
Record part := mkpart {
  p_name : list Z;                   (* code points *)
  p_filename : option (list Z);
  p_ctype : option (list Z);         (* None: no Content-Type line *)
  p_content : bytes
}.
(* quoted-string: backslash and double quote are escaped by a backslash *)
Definition quote_esc (s : list Z) : list Z :=
  flat_map (fun c => if c =? 92 then [92; 92]
                     else if c =? 34 then [92; 34] else [c]) s.
Definition crlf : bytes := [13; 10].
Definition part_header_text (p : part) : list Z :=
  s2l "Content-Disposition: form-data; name=""" ++ quote_esc (p_name p) ++ [34]
  ++ match p_filename p with
     | Some f => s2l "; filename=""" ++ quote_esc f ++ [34]
     | None => []
     end ++ crlf
  ++ match p_ctype p with
     | Some t => s2l "Content-Type: " ++ t ++ crlf
     | None => []
     end ++ crlf.
Definition encode_part (b : bytes) (p : part) : bytes :=
  45 :: 45 :: b ++ crlf ++ utf8_encode (part_header_text p) ++
  p_content p ++ crlf.
Definition encode (b : bytes) (parts : list part) (final_crlf : bool) : bytes :=
  List.concat (map (encode_part b) parts) ++ 45 :: 45 :: b ++ [45; 45] ++
  (if final_crlf then crlf else []).

(* what the parser is expected to return for a part *)
Definition expected_type (p : part) : list Z :=
  match p_ctype p with Some t => t | None => s2l "text/plain" end.
Definition field_matches (p : part) (f : field) : Prop :=
  f_name f = Some (p_name p) /\ f_filename f = p_filename p /\
  f_type f = expected_type p /\ f_bytes f = p_content p.

(* ------------------------------------- vocabulary of the theorems *)
Definition occurs (p s : list Z) : Prop := exists x y, s = x ++ p ++ y.
Definition ends_lf (l : bytes) : Prop := exists z, l = z ++ [10].
(* a CRLF inside l is at its very end *)
Definition no_inner_crlf (l : bytes) : Prop :=
  forall x y, l = x ++ [13; 10] ++ y -> y = [].

Definition dashb (b : bytes) : bytes := 45 :: 45 :: b.
(* a delimiter line without its line end: dash-boundary, "--" for the close
   delimiter, transport padding (RFC 2046: spaces and tabs) *)
Definition bline (b : bytes) (last : bool) (pad : bytes) : bytes :=
  dashb b ++ (if last then [45; 45] else []) ++ pad.
(* valid_boundary without the "$ matches before a final newline" quirk:
   1..201 characters 0x20..0x7e, the last one not a space *)
Definition boundary_ok (b : bytes) : bool :=
  match rev b with
  | c :: t => graphic c && forallb printable t && (len t <=? 200)
  | [] => false
  end.
(* What may follow a dash-boundary that starts a line of the content: the
   text [y] behind it (up to and including the CRLF in front of the real
   delimiter) must not make the line read "--b" or "--b--" plus white space.
   Near copies such as "--bX", "--b-", "--b--X" are fine. *)
Definition harmless (y : bytes) : bool :=
  match y with
  | [] => false
  | z :: r =>
      if is_ws z then false
      else if negb (z =? 45) then true
      else match r with
           | [] => true
           | z2 :: r2 =>
               if negb (z2 =? 45) then true
               else match r2 with
                    | [] => false
                    | z3 :: _ => negb (is_ws z3)
                    end
           end
  end.
(* no line of the content c is a delimiter line of boundary b *)
Definition no_delim_line (b c : bytes) : Prop :=
  forall x y, 10 :: c = x ++ (10 :: dashb b) ++ y ->
              harmless (y ++ [13; 10]) = true.
(* the same, computed *)
Fixpoint no_delim_from (pat : bytes) (s : bytes) : bool :=
  match s with
  | [] => true
  | _ :: s' =>
      (if prefixb pat s
       then harmless (skipn (List.length pat) s ++ [13; 10]) else true)
      && no_delim_from pat s'
  end.
Definition no_delim_lineb (b c : bytes) : bool :=
  no_delim_from (10 :: dashb b) (10 :: c).

(* the limit test of read_lines_to_outerboundary cannot fire before the
   delimiter line was read *)
Definition limit_ok (limit : option Z) (clen : Z) : Prop :=
  match limit with
  | None => True
  | Some L => L < 0 \/ clen + 2 < L
  end.

(* the header block of a part as the encoder writes it *)
Definition hdr_bytes (p : part) : bytes := utf8_encode (part_header_text p).
(* the header codec (FeedParser subset + parse_header) gives back the name,
   filename and media type of the part, and the media type is one that is
   read as an atomic part *)
Definition headers_decode (b : bytes) (p : part) : Prop :=
  exists hs, part_headers (utf8_decode (hdr_bytes p)) = Some hs /\
    part_meta hs b = (Some (p_name p), p_filename p, expected_type p) /\
    lz_eqb (expected_type p) (s2l "application/x-www-form-urlencoded") = false /\
    lz_eqb (slice_to (expected_type p) 10) (s2l "multipart/") = false.
(* a part the round trip is proved for: no LF in name, filename and media
   type (they are written into header lines), headers that decode, and no
   line of the content is a delimiter line.  ([headers_decode] is proved for
   every [part_wf] part below; the theorems are stated with [part_wf].) *)
Definition part_ok (b : bytes) (p : part) : Prop :=
  ~ In 10 (p_name p) /\
  (forall f, p_filename p = Some f -> ~ In 10 f) /\
  (forall t, p_ctype p = Some t -> ~ In 10 t) /\
  headers_decode b p /\
  no_delim_line b (p_content p).
(* The same, with the header codec discharged: explicit conditions on what
   the encoder writes into header lines.
   [scalar]: a code point UTF-8 can encode (Python refuses lone surrogates).
   [hdr_text]: encodable and free of CR and LF (either would end the header
   line; RFC 7578 encoders percent-encode them).  Everything else is allowed
   in names and filenames: blanks, quotes, semicolons, backslashes anywhere,
   controls, non-ASCII.
   [ctype_ok]: a media type as the property compares it -- header text
   without ';' (no parameters) and without blanks at either end -- that is
   read as an atomic part (nested multipart/* and urlencoded parts are not
   modelled). *)
Definition scalar (c : Z) : bool :=
  (0 <=? c) && (c <? 1114112) && negb ((55296 <=? c) && (c <=? 57343)).
Definition hdr_char (c : Z) : bool :=
  scalar c && negb (c =? 10) && negb (c =? 13).
Definition hdr_text (s : list Z) : bool := forallb hdr_char s.
Definition ctype_ok (t : list Z) : bool :=
  hdr_text t && negb (existsb (Z.eqb 59) t) && lz_eqb (strip_u t) t &&
  negb (lz_eqb t (s2l "application/x-www-form-urlencoded")) &&
  negb (lz_eqb (slice_to t 10) (s2l "multipart/")).
Definition part_wf (b : bytes) (p : part) : Prop :=
  hdr_text (p_name p) = true /\
  match p_filename p with Some f => hdr_text f = true | None => True end /\
  match p_ctype p with Some t => ctype_ok t = true | None => True end /\
  no_delim_line b (p_content p).
(* the request Content-Type value names a multipart type and boundary b *)
Definition ctype_names (ctv : list Z) (b : bytes) : Prop :=
  lz_eqb (fst (parse_header ctv)) (s2l "application/x-www-form-urlencoded")
    = false /\
  lz_eqb (slice_to (fst (parse_header ctv)) 10) (s2l "multipart/") = true /\
  pd_get (snd (parse_header ctv)) (s2l "boundary") = Some b.

(* The contract of a line source, for the size arguments [L] it is called
   with and on the states [P] it can be in.  [rem s] are the bytes not yet
   handed out. *)
Section Contract.
  Variable St : Type.
  Variable rl : Z -> St -> bytes * St.
  Variable rem : St -> bytes.

  Record good_reader (L : Z -> Prop) (P : St -> Prop) : Prop := {
    (* P is closed under reading *)
    gr_inv : forall lim s, L lim -> P s -> P (snd (rl lim s));
    (* the pieces concatenate to the input *)
    gr_concat : forall lim s, L lim -> P s ->
      fst (rl lim s) ++ rem (snd (rl lim s)) = rem s;
    (* an empty piece means end of input *)
    gr_progress : forall lim s, L lim -> P s -> lim <> 0 -> rem s <> [] ->
      fst (rl lim s) <> [];
    (* a piece never runs past a CRLF *)
    gr_line : forall lim s, L lim -> P s -> no_inner_crlf (fst (rl lim s));
    (* a piece that does not end with LF is a size cut or the end of input *)
    gr_full : forall lim s, L lim -> P s -> ~ ends_lf (fst (rl lim s)) ->
      0 <= lim <= len (fst (rl lim s)) \/ rem (snd (rl lim s)) = []
  }.
End Contract.

(* ---------------------------------------------------- correspondence *)
Definition MAXLINE : Z := 65536.
Definition BUFSIZE : Z := 8192.
Definition reader (k : Z) : Z -> bytes -> bytes * bytes :=
  if k =? 0 then lf_line else crlf_line.
Definition fuel_for (body : bytes) : nat := S (S (List.length body)).

Definition enc_opt (o : option (list Z)) : V :=
  match o with Some s => VS s | None => VN end.
(* (name, filename, type, value, still a BytesIO/StringIO?).  _write moves
   the data to make_file() when tell() + len(piece) > BUFSIZE, where tell()
   counts bytes of a BytesIO and characters of a StringIO while len(piece)
   counts bytes; with a file factory a file part is never held in memory
   (the factory of the harness does not return a BytesIO). *)
Fixpoint spilled (file : bool) (tell : Z) (ps : list bytes) : bool :=
  match ps with
  | [] => false
  | p :: t =>
      (BUFSIZE <? tell + len p) ||
      spilled file (tell + (if file then len p else len (utf8_decode p))) t
  end.
Definition in_memory (cb : bool) (f : field) : bool :=
  if is_file f then negb cb && negb (spilled true 0 (f_pieces f))
  else negb (spilled false 0 (f_pieces f)).
Definition enc_field (cb : bool) (f : field) : V :=
  VL [enc_opt (f_name f); enc_opt (f_filename f); VS (f_type f);
      (if is_file f then VY (f_bytes f) else VS (f_text f));
      VB (in_memory cb f)].
Definition factory_calls (cb : bool) (fs : list field) : list V :=
  if cb then
    flat_map (fun f => if is_file f
                       then match f_filename f with
                            | Some n => [VS n] | None => [] end
                       else []) fs
  else [].
Definition enc_outcome {A} (enc : A -> V) (o : outcome A) : V :=
  match o with
  | Ok a => enc a
  | Raised e => VX e
  | OutOfFuel => VX "OutOfFuel"
  | Unmodelled w => VX "Unmodelled"
  end.

(* parse a whole body: [fields, factory calls, unread input] *)
Definition run_parse (rd : Z) (ctype_hdr : option (list Z)) (clen : Z)
           (cb : bool) (body : bytes) : V :=
  enc_outcome
    (fun r => VL [VL (map (enc_field cb) (fst r)); VL (factory_calls cb (fst r));
                  VY (snd r)])
    (parse bytes (reader rd) MAXLINE (fuel_for body) ctype_hdr clen body).

(* read_lines_to_outerboundary alone, with a chosen line limit:
   [value, done, bytes_read, unread input] *)
Definition run_rlob (rd : Z) (maxline : Z) (ob : bytes) (limit : option Z)
           (body : bytes) : V :=
  match rlob bytes (reader rd) maxline (fuel_for body)
             (45 :: 45 :: ob) (45 :: 45 :: ob ++ [45; 45]) limit
             [] [] true 0 body with
  | RDone pieces done nread s =>
      VL [VY (List.concat pieces); VZ done; VZ nread; VY s]
  | RFuel => VX "OutOfFuel"
  end.

Definition run_readline (rd : Z) (k : Z) (body : bytes) : V :=
  let (l, t) := reader rd k body in VL [VY l; VY t].
Definition run_valid_boundary (b : bytes) : V := VB (valid_boundary b).
(* parse_header: [key, pdict.get(k) for k in keys] *)
Definition run_parse_header (s : list Z) (keys : list (list Z)) : V :=
  let (k, pd) := parse_header s in
  VL [VS k; VL (map (fun key => enc_opt (pd_get pd key)) keys)].
Definition run_encode (b : bytes) (parts : list part) (fin : bool) : V :=
  VY (encode b parts fin).
