(* The three per-request slots of poorwsgi/request.py SimpleRequest that the
   hook property (C03) rests on: uri_rule, uri_handler, error_handler.

   Each is a private attribute, initialised to None by SimpleRequest.__init__
   and reachable only through a property whose setter stores the value only
   while the attribute is still None (write-once).  A Python value is
   [option A] with [None] = Python's None (so "assigning None" to an empty
   slot leaves it empty, exactly as in the source).

   The definitions generated from the current source
   (gen/SlotsGen.v by harness/py2v_slots.py) are proved equal to these in
   proofs/SlotsGenEq.v.  The second part is the policy of the census of
   writers: every place in poorwsgi/*.py that assigns one of the slots. *)
From Coq Require Import List String Bool.
Import ListNotations.

Inductive slot_name := UriRule | UriHandler | ErrorHandler.

Definition slot_name_eqb (a b : slot_name) : bool :=
  match a, b with
  | UriRule, UriRule | UriHandler, UriHandler
  | ErrorHandler, ErrorHandler => true
  | _, _ => false
  end.

Section Slots.
  Variable A : Type.           (* Python values other than None *)

  Record slots := mkSlots {
    s_uri_rule : option A;
    s_uri_handler : option A;
    s_error_handler : option A }.

  (* SimpleRequest.__init__ *)
  Definition empty_slots : slots := mkSlots None None None.

  (* the body of every setter: `if self.__x is None: self.__x = value` *)
  Definition set_once (slot value : option A) : option A :=
    match slot with
    | None => value
    | Some _ => slot
    end.

  Definition get (n : slot_name) (s : slots) : option A :=
    match n with
    | UriRule => s_uri_rule s
    | UriHandler => s_uri_handler s
    | ErrorHandler => s_error_handler s
    end.

  (* `req.<n> = v` *)
  Definition set_slot (n : slot_name) (v : option A) (s : slots) : slots :=
    match n with
    | UriRule => mkSlots (set_once (s_uri_rule s) v) (s_uri_handler s)
                         (s_error_handler s)
    | UriHandler => mkSlots (s_uri_rule s) (set_once (s_uri_handler s) v)
                            (s_error_handler s)
    | ErrorHandler => mkSlots (s_uri_rule s) (s_uri_handler s)
                              (set_once (s_error_handler s) v)
    end.

  (* any sequence of assignments to the three properties *)
  Definition op := (slot_name * option A)%type.
  Definition apply_op (s : slots) (o : op) : slots :=
    set_slot (fst o) (snd o) s.
  Definition run_ops (ops : list op) (s : slots) : slots :=
    fold_left apply_op ops s.

  (* what Application.handler_from_table / handler_from_default do before
     they call the before hooks, when an endpoint was chosen *)
  Definition choose_endpoint (rule handler : A) (s : slots) : slots :=
    set_slot UriHandler (Some handler) (set_slot UriRule (Some rule) s).
End Slots.

Arguments mkSlots {A}.
Arguments s_uri_rule {A}.
Arguments s_uri_handler {A}.
Arguments s_error_handler {A}.
Arguments empty_slots {A}.
Arguments set_once {A}.
Arguments get {A}.
Arguments set_slot {A}.
Arguments apply_op {A}.
Arguments run_ops {A}.
Arguments choose_endpoint {A}.

(* ---- policy of the census (gen/SlotsGen.v [slot_writers]):
   (function, target, value) with parameters written arg0, arg1, ... and
   local variables loc0, loc1, ... in order of first assignment; a class-level
   definition of one of the three names is (class, "def <name>", decorators) *)
Open Scope string_scope.

Definition slot_writer := (string * string * string)%type.

Definition allowed_slot_writers : list slot_writer :=
  [ (* the slots themselves: initial None, the write-once setters *)
    ("request.SimpleRequest", "def error_handler", "property");
    ("request.SimpleRequest", "def error_handler", "error_handler.setter");
    ("request.SimpleRequest", "def uri_handler", "property");
    ("request.SimpleRequest", "def uri_handler", "uri_handler.setter");
    ("request.SimpleRequest", "def uri_rule", "property");
    ("request.SimpleRequest", "def uri_rule", "uri_rule.setter");
    ("request.SimpleRequest.__init__", "arg0.__error_handler", "None");
    ("request.SimpleRequest.__init__", "arg0.__uri_handler", "None");
    ("request.SimpleRequest.__init__", "arg0.__uri_rule", "None");
    ("request.SimpleRequest.error_handler", "arg0.__error_handler", "arg1");
    ("request.SimpleRequest.uri_handler", "arg0.__uri_handler", "arg1");
    ("request.SimpleRequest.uri_rule", "arg0.__uri_rule", "arg1");
    (* registration decorator of the application, not a slot *)
    ("wsgi.Application", "def error_handler", "");
    (* error resolution (Dispatch.error_from_table / state_from_table) *)
    ("wsgi.Application.error_from_table", "arg1.error_handler", "loc0");
    ("wsgi.Application.state_from_table", "arg1.error_handler", "loc0");
    (* endpoint selection (Dispatch.try_body leaves; Route.v precedence) *)
    ("wsgi.Application.handler_from_default", "arg1.uri_handler",
     "arg0.__dhandlers[arg1.method_number]");
    ("wsgi.Application.handler_from_default", "arg1.uri_rule", "'/*'");
    ("wsgi.Application.handler_from_table", "arg1.uri_handler", "debug_info");
    ("wsgi.Application.handler_from_table", "arg1.uri_handler",
     "directory_index");
    ("wsgi.Application.handler_from_table", "arg1.uri_handler", "loc0");
    ("wsgi.Application.handler_from_table", "arg1.uri_rule", "'/*'");
    ("wsgi.Application.handler_from_table", "arg1.uri_rule", "'/debug-info'");
    ("wsgi.Application.handler_from_table", "arg1.uri_rule", "arg1.path");
    ("wsgi.Application.handler_from_table", "arg1.uri_rule",
     "loc4 or loc1.pattern") ].

Definition sw_eqb (a b : slot_writer) : bool :=
  match a, b with
  | (f, t, v), (f', t', v') =>
      String.eqb f f' && String.eqb t t' && String.eqb v v'
  end.

Lemma sw_eqb_eq a b : sw_eqb a b = true -> a = b.
Proof.
  destruct a as [[f t] v], b as [[f' t'] v']. unfold sw_eqb.
  intros H. repeat (apply andb_true_iff in H; destruct H as [H ?]).
  repeat match goal with
         | E : String.eqb _ _ = true |- _ => apply String.eqb_eq in E
         end.
  now subst.
Qed.

Definition slot_writers_ok (ws : list slot_writer) : bool :=
  forallb (fun w => existsb (sw_eqb w) allowed_slot_writers) ws.

Lemma slot_writers_ok_spec ws :
  slot_writers_ok ws = true ->
  forall w, In w ws -> In w allowed_slot_writers.
Proof.
  unfold slot_writers_ok. intros H w Hin. rewrite forallb_forall in H.
  specialize (H w Hin). apply existsb_exists in H.
  destruct H as [a [Ha He]]. apply sw_eqb_eq in He. now subst.
Qed.
