(* Model of request routing in poorwsgi/wsgi.py (C02):
     re_filter, the built-in filter table, set_filter, Application.__regex /
     __converter, set_route, set_regular_route, set_default,
     handler_from_table, handler_from_default,
   poorwsgi/request.py method_number / path and poorwsgi/state.py methods.

   * str = list Z (code points).  Handlers are identifiers (Z).  Python's
     [re] is modelled by model/Regex.v ([parse_regex] = re.compile(.., re.U)
     on the supported subset, [re_match] = pattern.match).  A registration
     whose expression is outside that subset has the outcome
     [Raised "unsupported"] (the harness skips and counts such tables).
   * the ordered pattern table is a list in insertion order keyed by the
     pattern text (re.Pattern objects compare by text and flags; every
     route is compiled with re.U).
   * the document-root leaves depend on the file system; the three tests
     of the code (exists / isfile+R_OK / document_index+isdir+R_OK) are
     the input [fskind].
   * converters: int, float, str, uuid.UUID and tagged user callables;
     [apply_conv] is exact on the text shapes the filters let through
     (Unicode decimal digits and white space included, by the table of U),
     [CRaise] where Python certainly raises, [CUnknown] otherwise
     (underscore digit grouping, exponents, inf/nan).
   * str.lower() is modelled on ASCII (filter names in routes are ASCII in
     the harness; inline :re: expressions are not affected because only
     membership in the filter table and the first four characters are
     tested on the lowered text).

   Second part: [select_spec] (the documented precedence, stated with the
   language-level acceptor), the structured route compiler [compile_route]
   and the relational route language [InRoute]. *)
From Coq Require Import ZArith List Bool String.
Require Import PW.lib.Val PW.model.Regex.
Import ListNotations.
Open Scope string_scope.
Open Scope list_scope.
Open Scope Z_scope.

Inductive outcome (A : Type) := Ok (a : A) | Raised (e : string).
Arguments Ok {A} a. Arguments Raised {A} e.

(* ---------------------------------------------------------------- methods *)
(* state.methods, in dict order *)
Definition method_table : list (list Z * Z) :=
  [ (s2l "HEAD", 1); (s2l "GET", 2); (s2l "POST", 4); (s2l "PUT", 8);
    (s2l "DELETE", 16); (s2l "TRACE", 32); (s2l "OPTIONS", 64);
    (s2l "CONNECT", 128); (s2l "PATCH", 256) ].
Definition meths : list Z := map snd method_table.

Fixpoint lget {A} (k : list Z) (l : list (list Z * A)) : option A :=
  match l with
  | [] => None
  | (k', v) :: r => if lz_eqb k k' then Some v else lget k r
  end.
Fixpoint zget {A} (k : Z) (l : list (Z * A)) : option A :=
  match l with
  | [] => None
  | (k', v) :: r => if k =? k' then Some v else zget k r
  end.
Definition zmem {A} (k : Z) (l : list (Z * A)) : bool :=
  match zget k l with Some _ => true | None => false end.
(* d[k] = v : in place when present, appended otherwise *)
Fixpoint zset {A} (k : Z) (v : A) (l : list (Z * A)) : list (Z * A) :=
  match l with
  | [] => [(k, v)]
  | (k', v') :: r => if k =? k' then (k', v) :: r else (k', v') :: zset k v r
  end.
Fixpoint lset {A} (k : list Z) (v : A) (l : list (list Z * A))
  : list (list Z * A) :=
  match l with
  | [] => [(k, v)]
  | (k', v') :: r =>
      if lz_eqb k k' then (k', v) :: r else (k', v') :: lset k v r
  end.

(* Request.method_number: unknown tokens are GET *)
Definition method_number (tok : list Z) : Z :=
  match lget tok method_table with Some b => b | None => 2 end.

(* Python [if method & val] *)
Definition has_bit (mask b : Z) : bool := negb (Z.land mask b =? 0).

(* for val in methods.values(): if method & val: d[val] = x *)
Fixpoint fan {A} (mask : Z) (x : A) (ms : list Z) (d : list (Z * A))
  : list (Z * A) :=
  match ms with
  | [] => d
  | b :: r => fan mask x r (if has_bit mask b then zset b x d else d)
  end.

(* ------------------------------------------------------------------- path *)
Fixpoint latin1_ok (s : list Z) : bool :=
  match s with
  | [] => true
  | c :: r => (0 <=? c) && (c <=? 255) && latin1_ok r
  end.

Definition cont (b : Z) : bool := (128 <=? b) && (b <=? 191).
Definition ocons (c : Z) (o : option (list Z)) : option (list Z) :=
  match o with Some l => Some (c :: l) | None => None end.

(* bytes.decode('utf-8'), strict (CPython: no overlong forms, no
   surrogates, nothing above U+10FFFF) *)
Fixpoint utf8_decode (l : list Z) : option (list Z) :=
  match l with
  | [] => Some []
  | b0 :: r0 =>
      if b0 <? 128 then ocons b0 (utf8_decode r0)
      else if (194 <=? b0) && (b0 <=? 223) then
        match r0 with
        | b1 :: r1 =>
            if cont b1
            then ocons ((b0 - 192) * 64 + (b1 - 128)) (utf8_decode r1)
            else None
        | [] => None
        end
      else if (224 <=? b0) && (b0 <=? 239) then
        match r0 with
        | b1 :: b2 :: r2 =>
            let lo := if b0 =? 224 then 160 else 128 in
            let hi := if b0 =? 237 then 159 else 191 in
            if (lo <=? b1) && (b1 <=? hi) && cont b2
            then ocons ((b0 - 224) * 4096 + (b1 - 128) * 64 + (b2 - 128))
                       (utf8_decode r2)
            else None
        | _ => None
        end
      else if (240 <=? b0) && (b0 <=? 244) then
        match r0 with
        | b1 :: b2 :: b3 :: r3 =>
            let lo := if b0 =? 240 then 144 else 128 in
            let hi := if b0 =? 244 then 143 else 191 in
            if (lo <=? b1) && (b1 <=? hi) && cont b2 && cont b3
            then ocons ((b0 - 240) * 262144 + (b1 - 128) * 4096 +
                        (b2 - 128) * 64 + (b3 - 128)) (utf8_decode r3)
            else None
        | _ => None
        end
      else None
  end.

(* Request.path: PATH_INFO.encode('iso-8859-1').decode(), or PATH_INFO
   itself on UnicodeError *)
Definition req_path (raw : list Z) : list Z :=
  if latin1_ok raw then
    match utf8_decode raw with Some s => s | None => raw end
  else raw.

(* ---------------------------------------------------------------- filters *)
Inductive conv := CInt | CFloat | CStr | CUuid | CTag (id : Z).
Notation ftab := (list (list Z * (option (list Z) * conv))).

(* Application.__init__ *)
Definition init_filters : ftab :=
  [ (s2l ":int", (Some (s2l "-?\d+"), CInt));
    (s2l ":float", (Some (s2l "-?\d+(\.\d+)?"), CFloat));
    (s2l ":word", (Some (s2l "\w+"), CStr));
    (s2l ":hex", (Some (s2l "[0-9a-fA-F]+"), CStr));
    (s2l ":uuid",
     (Some (s2l "[0-9a-fA-F]{8}-[0-9a-fA-F]{4}-[0-9a-fA-F]{4}-[0-9a-fA-F]{4}-[0-9a-fA-F]{12}"),
      CUuid));
    (s2l ":re:", (None, CStr));
    (s2l "none", (Some (s2l "[^/]+"), CStr)) ].

Definition lower1 (c : Z) : Z := if (65 <=? c) && (c <=? 90) then c + 32 else c.
Definition str_lower (s : list Z) : list Z := map lower1 s.

(* set_filter(name, regex, converter) *)
Definition set_filter (F : ftab) (name rx : list Z) (cv : conv)
  : outcome ftab :=
  match name with
  | [] => Raised "IndexError"
  | c :: _ =>
      let name' := if c =? 58 then name else 58 :: name in
      Ok (lset name' (Some rx, cv) F)
  end.

(* ------------------------------------------------ re_filter on a route *)
(* re_filter = <(\w+)(:[^>]+)?>  (a str pattern: \w is Unicode-aware) *)
Inductive part :=
  | PLit (c : Z)
  | PGrp (name : list Z) (filt : option (list Z)).   (* groups() of a hit *)

Fixpoint span (p : Z -> bool) (t : list Z) : list Z * list Z :=
  match t with
  | [] => ([], [])
  | c :: t' =>
      if p c then let (a, b) := span p t' in (c :: a, b) else ([], t)
  end.

Definition not_gt (c : Z) : bool := negb (c =? 62).

Section Scan.
  Variable U : uclass.

  (* after "<": the rest of one hit *)
  Definition try_group (t : list Z)
    : option (list Z * option (list Z) * list Z) :=
    let (nm, t1) := span (is_word U) t in
    match nm with
    | [] => None
    | _ =>
        match t1 with
        | [] => None
        | c :: t2 =>
            if c =? 62 then Some (nm, None, t2)
            else if c =? 58 then
              let (body, t3) := span not_gt t2 in
              match body with
              | [] => None
              | _ =>
                  match t3 with
                  | [] => None
                  | _ :: t4 => Some (nm, Some (58 :: body), t4)
                  end
              end
            else None
        end
    end.

  (* finditer: leftmost hits, not overlapping; other characters literal *)
  Fixpoint scan (f : nat) (t : list Z) : list part :=
    match f with
    | O => []
    | S f' =>
        match t with
        | [] => []
        | c :: t' =>
            if c =? 60 then
              match try_group t' with
              | Some (nm, filt, rest) => PGrp nm filt :: scan f' rest
              | None => PLit c :: scan f' t'
              end
            else PLit c :: scan f' t'
        end
    end.
  Definition scan_uri (uri : list Z) : list part := scan (List.length uri) uri.
End Scan.

Definition is_grp (p : part) : bool :=
  match p with PGrp _ _ => true | PLit _ => false end.
(* re_filter.search(uri) *)
Definition has_group (ps : list part) : bool := existsb is_grp ps.

(* str(groups[1]).lower() *)
Definition filter_key (filt : option (list Z)) : list Z :=
  str_lower (match filt with Some f => f | None => s2l "None" end).
Definition starts_re (key : list Z) : bool := lz_eqb (firstn 4 key) (s2l ":re:").

(* Application.__regex: the expression put between "(?P<name>" and ")" *)
Definition regex_of (F : ftab) (filt : option (list Z)) : outcome (list Z) :=
  let key := filter_key filt in
  match lget key F with
  | Some (rx, _) =>
      Ok (match rx with Some t => t | None => s2l "None" end)  (* "%s" % None *)
  | None =>
      if starts_re key
      then Ok (skipn 4 (match filt with Some f => f | None => [] end))
      else Raised "RuntimeError"
  end.

(* Application.__converter *)
Definition conv_of (F : ftab) (filt : option (list Z)) : outcome conv :=
  let key := filter_key filt in
  let key' := if starts_re key then s2l ":re:" else key in
  match lget key' F with
  | Some (_, cv) => Ok cv
  | None => Raised "RuntimeError"
  end.

(* re_filter.sub(self.__regex, uri) + r'\Z' *)
Fixpoint compile_parts (F : ftab) (ps : list part) : outcome (list Z) :=
  match ps with
  | [] => Ok [92; 90]
  | PLit c :: ps' =>
      match compile_parts F ps' with
      | Ok t => Ok (c :: t)
      | Raised e => Raised e
      end
  | PGrp nm filt :: ps' =>
      match regex_of F filt with
      | Ok rx =>
          match compile_parts F ps' with
          | Ok t => Ok (s2l "(?P<" ++ nm ++ [62] ++ rx ++ [41] ++ t)
          | Raised e => Raised e
          end
      | Raised e => Raised e
      end
  end.

Fixpoint converters (F : ftab) (ps : list part)
  : outcome (list (list Z * conv)) :=
  match ps with
  | [] => Ok []
  | PLit _ :: ps' => converters F ps'
  | PGrp nm filt :: ps' =>
      match conv_of F filt with
      | Ok cv =>
          match converters F ps' with
          | Ok l => Ok ((nm, cv) :: l)
          | Raised e => Raised e
          end
      | Raised e => Raised e
      end
  end.

(* ------------------------------------------------------------------ tables *)
Record pentry := mkPE {
  pe_fun : Z;
  pe_convs : list (list Z * conv);
  pe_rule : option (list Z) }.

Record pat := mkPat {
  p_text : list Z;              (* ruri.pattern, the key *)
  p_re : re;                    (* the compiled expression *)
  p_n : nat;                    (* ruri.groups *)
  p_tab : list (Z * pentry) }.  (* {method bit: (fun, converters, rule)} *)

Record app := mkApp {
  a_static : list (list Z * list (Z * Z));   (* {path: {method bit: fun}} *)
  a_pats : list pat;                         (* OrderedDict, insertion order *)
  a_defaults : list (Z * Z);
  a_filters : ftab }.

Definition init_app : app := mkApp [] [] [] init_filters.

Fixpoint pat_mem (text : list Z) (ps : list pat) : bool :=
  match ps with
  | [] => false
  | p :: r => lz_eqb text (p_text p) || pat_mem text r
  end.

(* self.__rhandlers[r_uri][val] = e for the bits of mask; the key keeps
   its position *)
Fixpoint pat_update (text : list Z) (mask : Z) (e : pentry) (ps : list pat)
  : list pat :=
  match ps with
  | [] => []
  | p :: r =>
      if lz_eqb text (p_text p)
      then mkPat (p_text p) (p_re p) (p_n p) (fan mask e meths (p_tab p)) :: r
      else p :: pat_update text mask e r
  end.

(* set_regular_route(uri, fun, method, converters, rule) *)
Definition set_regular (a : app) (text : list Z) (f mask : Z)
           (cvs : list (list Z * conv)) (rule : option (list Z))
  : outcome app :=
  match parse_regex text with
  | None => Raised "unsupported"
  | Some (r, n) =>
      let e := mkPE f cvs rule in
      let ps := if pat_mem text (a_pats a) then a_pats a
                else a_pats a ++ [mkPat text r n []] in
      Ok (mkApp (a_static a) (pat_update text mask e ps)
                (a_defaults a) (a_filters a))
  end.

Section Reg.
  Variable U : uclass.

  (* set_route(uri, fun, method) *)
  Definition set_route (a : app) (uri : list Z) (f mask : Z) : outcome app :=
    let ps := scan_uri U uri in
    if has_group ps then
      match compile_parts (a_filters a) ps with
      | Ok text =>
          match converters (a_filters a) ps with
          | Ok cvs => set_regular a text f mask cvs (Some uri)
          | Raised e => Raised e
          end
      | Raised e => Raised e
      end
    else
      let mt := match lget uri (a_static a) with Some m => m | None => [] end in
      Ok (mkApp (lset uri (fan mask f meths mt) (a_static a)) (a_pats a)
                (a_defaults a) (a_filters a)).

  Inductive op :=
    | OpRoute (uri : list Z) (f mask : Z)
    | OpRegular (text : list Z) (f mask : Z)
    | OpFilter (name rx : list Z) (cv : conv)
    | OpDefault (f mask : Z).

  Definition step (a : app) (o : op) : outcome app :=
    match o with
    | OpRoute uri f mask => set_route a uri f mask
    | OpRegular text f mask => set_regular a text f mask [] None
    | OpFilter name rx cv =>
        match set_filter (a_filters a) name rx cv with
        | Ok F => Ok (mkApp (a_static a) (a_pats a) (a_defaults a) F)
        | Raised e => Raised e
        end
    | OpDefault f mask =>
        Ok (mkApp (a_static a) (a_pats a) (fan mask f meths (a_defaults a))
                  (a_filters a))
    end.

  (* a call that raises leaves the application as it was *)
  Fixpoint exec (a : app) (ops : list op) : app * list (option string) :=
    match ops with
    | [] => (a, [])
    | o :: r =>
        match step a o with
        | Ok a' => let (b, l) := exec a' r in (b, None :: l)
        | Raised e => let (b, l) := exec a r in (b, Some e :: l)
        end
    end.
End Reg.

(* -------------------------------------------------------------- converters *)
Inductive value :=
  | VInt (z : Z) | VFloat (num den : Z) | VStr (s : list Z) | VUuid (z : Z)
  | VTag (id : Z) (s : list Z) | VNone.
Inductive cres := CVal (v : value) | CRaise | CUnknown.

Definition split_sign (s : list Z) : bool * list Z :=
  match s with
  | c :: t => if c =? 45 then (true, t) else if c =? 43 then (false, t)
              else (false, s)
  | [] => (false, s)
  end.

Section Conv.
  Variable U : uclass.

  (* int() and float() accept every Unicode decimal digit and strip every
     Unicode white space (the sets of \d and \s) *)
  Definition all_digits (s : list Z) : bool :=
    match s with [] => false | _ => forallb (is_digit U) s end.
  Definition digit_val (c : Z) : Z := if c <? 128 then c - 48 else u_dval U c.
  Definition dval (s : list Z) : Z :=
    fold_left (fun a d => 10 * a + digit_val d) s 0.
  Definition strip_ws (s : list Z) : list Z :=
    let drop := fix drop (t : list Z) : list Z :=
      match t with
      | c :: t' => if is_space U c then drop t' else t
      | [] => []
      end in
    rev (drop (rev (drop s))).

  Definition conv_int (s : list Z) : cres :=
    if existsb (fun c => negb (is_digit U c || is_space U c ||
                               (c =? 95) || (c =? 43) || (c =? 45))) s
    then CRaise
    else
      let (neg, d) := split_sign (strip_ws s) in
      if all_digits d then CVal (VInt (if neg then - dval d else dval d))
      else if existsb (Z.eqb 95) s then CUnknown else CRaise.

  (* nearest binary64 to N/D (N, D > 0), ties to even, as the reduced
     fraction float.as_integer_ratio() shows; the normal range only *)
  Definition pow2 (e : Z) : Z := Z.pow 2 e.
  Definition scaled (N D e : Z) : Z * Z :=      (* N / (D * 2^e) *)
    if 0 <=? e then (N, D * pow2 e) else (N * pow2 (- e), D).
  Fixpoint fit (f : nat) (N D e : Z) : Z :=
    match f with
    | O => e
    | S f' =>
        let (a, b) := scaled N D e in
        let q := a / b in
        if pow2 53 <=? q then fit f' N D (e + 1)
        else if q <? pow2 52 then fit f' N D (e - 1)
        else e
    end.
  Fixpoint reduce2 (f : nat) (q k : Z) : Z * Z :=   (* q / 2^k reduced *)
    match f with
    | O => (q, pow2 k)
    | S f' => if (0 <? k) && (q mod 2 =? 0) then reduce2 f' (q / 2) (k - 1)
              else (q, pow2 k)
    end.
  Definition float_ratio (N D : Z) : Z * Z :=
    if N =? 0 then (0, 1) else
    let e := fit 8 N D (Z.log2 N - Z.log2 D - 52) in
    let (a, b) := scaled N D e in
    let q := a / b in
    let r := a mod b in
    let q' := if b <? 2 * r then q + 1
              else if b =? 2 * r then q + q mod 2 else q in
    if 0 <=? e then (q' * pow2 e, 1) else reduce2 64 q' (- e).

  Definition float_letter (c : Z) : bool :=
    existsb (Z.eqb (lower1 c)) [101; 105; 110; 102; 116; 121; 97].
  Definition conv_float (s : list Z) : cres :=
    if existsb (fun c => negb (is_digit U c || is_space U c ||
                               (c =? 95) || (c =? 43) || (c =? 45) ||
                               (c =? 46) || float_letter c)) s
    then CRaise
    else
      let (neg, d) := split_sign (strip_ws s) in
      let (ip, r) := span (is_digit U) d in
      let mk (N D : Z) :=
        let (n, dn) := float_ratio N D in
        CVal (VFloat (if neg then - n else n) dn) in
      let fallback :=
        if existsb (fun c => (c =? 95) || float_letter c) s
        then CUnknown else CRaise in
      match r with
      | [] => match ip with [] => fallback | _ => mk (dval ip) 1 end
      | c :: fp =>
          if (c =? 46) && forallb (is_digit U) fp &&
             negb (match ip, fp with [], [] => true | _, _ => false end)
          then mk (dval (ip ++ fp)) (Z.pow 10 (Z.of_nat (List.length fp)))
          else fallback
      end.

  Definition hex_digit (c : Z) : bool :=
    ascii_digit c || between 65 70 c || between 97 102 c.
  Definition hex_val (c : Z) : Z :=
    if ascii_digit c then c - 48
    else if between 65 70 c then c - 55 else c - 87.
  Definition conv_uuid (s : list Z) : cres :=
    if forallb (fun c => hex_digit c || (c =? 45)) s then
      let h := filter hex_digit s in
      if Nat.eqb (List.length h) 32
      then CVal (VUuid (fold_left (fun a d => 16 * a + hex_val d) h 0))
      else CRaise
    else CUnknown.

  Definition apply_conv (cv : conv) (s : list Z) : cres :=
    match cv with
    | CInt => conv_int s
    | CFloat => conv_float s
    | CStr => CVal (VStr s)
    | CUuid => conv_uuid s
    | CTag id => CVal (VTag id s)
    end.
End Conv.

(* --------------------------------------------------------------- selection *)
Inductive fskind :=
  | FsNone       (* not path.exists(rfile) *)
  | FsFile       (* isfile and readable *)
  | FsDir        (* document_index and isdir and readable *)
  | FsOther.

Inductive selection :=
  | SHandler (h : Z) (args : list value) (pargs : list (list Z * value))
             (rule : list Z)
  | SConvError                 (* a converter raised: the request fails *)
  | SUnknown                   (* conversion outside the model *)
  | S405 | SFile | SDir | S403 | SDebug
  | SDefault (h : Z)
  | S404.

Definition debug_path : list Z := s2l "/debug-info".

Section Select.
  Variable U : uclass.

  Definition opt_value (o : option (list Z)) : value :=
    match o with Some s => VStr s | None => VNone end.

  (* OrderedDict((g, c(match.group(g))) for (g, c) in converters) *)
  Fixpoint convert_all (r : re) (c : caps) (cvs : list (list Z * conv))
    : outcome (list (list Z * value)) :=
    match cvs with
    | [] => Ok []
    | (g, cv) :: rest =>
        match group_by_name r c g with
        | None => Raised "unknown"
        | Some s =>
            match apply_conv U cv s with
            | CVal v =>
                match convert_all r c rest with
                | Ok l => Ok ((g, v) :: l)
                | Raised e => Raised e
                end
            | CRaise => Raised "raise"
            | CUnknown => Raised "unknown"
            end
        end
    end.

  (* the body of the loop of handler_from_table once a pattern is chosen *)
  Definition run_entry (p : pat) (e : pentry) (c : caps) : selection :=
    let rule := match pe_rule e with
                | Some (x :: u) => x :: u
                | _ => p_text p                  (* rule or ruri.pattern *)
                end in
    match pe_convs e with
    | _ :: _ =>
        match convert_all (p_re p) c (pe_convs e) with
        | Ok pargs => SHandler (pe_fun e) (map snd pargs) pargs rule
        | Raised "raise" => SConvError
        | Raised _ => SUnknown
        end
    | [] =>
        SHandler (pe_fun e)
                 (map opt_value (groups_list (p_n p) c))       (* groups() *)
                 (map (fun ni => (fst ni, opt_value (cap_get (snd ni) c)))
                      (group_names (p_re p) (p_n p)))         (* groupdict() *)
                 rule
    end.

  (* for ruri in self.__rhandlers: match = ruri.match(path);
       if match and method in table: ... *)
  Fixpoint select_pat (m : Z) (path : list Z) (ps : list pat)
    : option selection :=
    match ps with
    | [] => None
    | p :: rest =>
        match re_match U (p_re p) path with
        | Some (c, _) =>
            match zget m (p_tab p) with
            | Some e => Some (run_entry p e c)
            | None => select_pat m path rest
            end
        | None => select_pat m path rest
        end
    end.

  (* handler_from_default *)
  Definition from_default (a : app) (m : Z) : selection :=
    match zget m (a_defaults a) with
    | Some h => SDefault h
    | None => S404
    end.

  Definition debug_or_default (a : app) (debug : bool) (m : Z) (path : list Z)
    : selection :=
    if debug && lz_eqb path debug_path then SDebug else from_default a m.

  (* handler_from_table; [root] = bool(req.document_root) *)
  Definition select (a : app) (debug root : bool) (fs : fskind)
             (method raw_path : list Z) : selection :=
    let m := method_number method in
    let path := req_path raw_path in
    match lget path (a_static a) with
    | Some mt =>
        match zget m mt with
        | Some h => SHandler h [] [] path
        | None => S405
        end
    | None =>
        match select_pat m path (a_pats a) with
        | Some s => s
        | None =>
            if root && has_bit m 3 then
              match fs with
              | FsNone => debug_or_default a debug m path
              | FsFile => SFile
              | FsDir => SDir
              | FsOther => S403
              end
            else debug_or_default a debug m path
        end
    end.

  (* ------------------------------------------------ declarative precedence *)
  (* a pattern route is eligible: its expression matches a prefix of the
     path (language level: the verified derivative acceptor) and it is
     registered for the method *)
  Definition eligible (m : Z) (path : list Z) (p : pat) : bool :=
    accepts_prefix U (p_re p) path && zmem m (p_tab p).

  Definition fallback (a : app) (debug root : bool) (fs : fskind) (m : Z)
             (path : list Z) : selection :=
    match root && has_bit m 3, fs with
    | true, FsFile => SFile
    | true, FsDir => SDir
    | true, FsOther => S403
    | _, _ =>
        if debug && lz_eqb path debug_path then SDebug
        else match zget m (a_defaults a) with
             | Some h => SDefault h
             | None => S404
             end
    end.

  Definition select_spec (a : app) (debug root : bool) (fs : fskind)
             (method raw_path : list Z) : selection :=
    let m := method_number method in
    let path := req_path raw_path in
    match lget path (a_static a) with
    | Some mt =>
        match zget m mt with
        | Some h => SHandler h [] [] path
        | None => S405
        end
    | None =>
        match find (eligible m path) (a_pats a) with
        | Some p =>
            match re_match U (p_re p) path, zget m (p_tab p) with
            | Some (c, _), Some e => run_entry p e c
            | _, _ => S404          (* not reachable, see select_precedence *)
            end
        | None => fallback a debug root fs m path
        end
    end.
End Select.

(* -------------------------------------------- structured route compiler *)
Definition name_ok (nm : list Z) : bool :=
  match nm with
  | [] => false
  | x :: r => ident_start x && forallb ascii_word r
  end.

(* surface expression of a group route: literal characters, one named
   group per <name:filter> holding the parsed filter expression, \Z.
   Fails closed: a literal that is a metacharacter, a name that is not an
   ASCII identifier, a filter expression that does not parse on its own or
   contains an end anchor *)
Fixpoint s_build (F : ftab) (ps : list part) : option sre :=
  match ps with
  | [] => Some (SSeq SEndZ SEps)
  | PLit c :: ps' =>
      if is_meta c then None
      else match s_build F ps' with
           | Some r => Some (SSeq (SCls false [IChr c]) r)
           | None => None
           end
  | PGrp nm filt :: ps' =>
      if name_ok nm then
        match regex_of F filt with
        | Ok ft =>
            match parse_sre ft with
            | Some a =>
                if anchor_free (fst (lower a 0)) then
                  match s_build F ps' with
                  | Some r => Some (SSeq (SGroup (Some nm) a) r)
                  | None => None
                  end
                else None
            | None => None
            end
        | Raised _ => None
        end
      else None
  end.

Definition compile_route (U : uclass) (F : ftab) (uri : list Z)
  : option (re * nat) :=
  let ps := scan_uri U uri in
  if has_group ps then
    match s_build F ps with
    | Some a => finish_regex a
    | None => None
    end
  else None.

(* the text handed to re.compile for the same route *)
Definition compile_text (U : uclass) (F : ftab) (uri : list Z)
  : outcome (list Z) := compile_parts F (scan_uri U uri).

(* ------------------------------------------------- the language of a route *)
Section Lang.
  Variable U : uclass.
  Variable F : ftab.

  (* the segment v is accepted, as a whole, by the expression of the filter *)
  Definition FilterAccepts (filt : option (list Z)) (v : list Z) : Prop :=
    exists ft a, regex_of F filt = Ok ft /\ parse_sre ft = Some a /\
                 Matches U (fst (lower a 0)) v [].

  (* p consists of the literal text and of segments accepted by the
     filters, and of nothing else; vs are the segments *)
  Inductive Segments : list part -> list Z -> list (list Z) -> Prop :=
  | SgNil : Segments [] [] []
  | SgLit c ps p vs : Segments ps p vs -> Segments (PLit c :: ps) (c :: p) vs
  | SgGrp nm filt ps v p vs :
      FilterAccepts filt v -> Segments ps p vs ->
      Segments (PGrp nm filt :: ps) (v ++ p) (v :: vs).

  Definition InRoute (uri p : list Z) : Prop :=
    exists vs, Segments (scan_uri U uri) p vs.
End Lang.

(* names of the groups of a route, in declaration order *)
Fixpoint grp_names (ps : list part) : list (list Z) :=
  match ps with
  | [] => []
  | PLit _ :: ps' => grp_names ps'
  | PGrp nm _ :: ps' => nm :: grp_names ps'
  end.

(* the converters applied, in order, to the segments *)
Fixpoint convert_segs (U : uclass) (cvs : list (list Z * conv))
         (vs : list (list Z)) : outcome (list (list Z * value)) :=
  match cvs, vs with
  | [], [] => Ok []
  | (g, cv) :: cvs', v :: vs' =>
      match apply_conv U cv v with
      | CVal x =>
          match convert_segs U cvs' vs' with
          | Ok l => Ok ((g, x) :: l)
          | Raised e => Raised e
          end
      | CRaise => Raised "raise"
      | CUnknown => Raised "unknown"
      end
  | _, _ => Raised "unknown"
  end.

(* ------------------------------------------------- correspondence entries *)
Definition tbl_class (digits : list (Z * Z)) (words spaces : list Z) : uclass :=
  mkU (fun c => existsb (fun d => Z.eqb c (fst d)) digits)
      (fun c => existsb (Z.eqb c) words)
      (fun c => existsb (Z.eqb c) spaces)
      (fun c => match zget c digits with Some v => v | None => 0 end).

Definition enc_value (v : value) : V :=
  match v with
  | VInt z => VZ z
  | VFloat n d => VL [VX "float"; VZ n; VZ d]
  | VStr s => VS s
  | VUuid z => VL [VX "uuid"; VZ z]
  | VTag id s => VL [VX "tag"; VZ id; VS s]
  | VNone => VN
  end.

(* [status; before hook ran; uri_rule seen by the hook; uri_handler seen by
   the hook; handler that ran; positional args; path_args seen by it] *)
Definition obs (status : Z) (ran : bool) (rule : V) (uh : V) (h : V)
           (args pargs : list V) : V :=
  VL [VZ status; VB ran; rule; uh; h; VL args; VL pargs].

Definition enc_sel (s : selection) : V :=
  match s with
  | SHandler h args pargs rule =>
      obs 200 true (VS rule) (VZ h) (VZ h) (map enc_value args)
          (map (fun kv => VL [VS (fst kv); enc_value (snd kv)]) pargs)
  | SConvError => obs 500 false VN VN VN [] []
  | SUnknown => VX "unknown"
  | S405 => obs 405 true VN VN VN [] []
  | SFile => obs 200 true (VS (s2l "/*")) VN VN [] []
  | SDir => obs 200 true (VS (s2l "/*")) (VX "directory_index") VN [] []
  | S403 => obs 403 true VN VN VN [] []
  | SDebug => obs 200 true (VS debug_path) (VX "debug_info") VN [] []
  | SDefault h => obs 200 true (VS (s2l "/*")) (VZ h) (VZ h) [] []
  | S404 => obs 404 true (VS (s2l "/*")) VN VN [] []
  end.

Definition enc_reg (o : option string) : V :=
  match o with None => VN | Some e => VX e end.

Definition fs_of (k : Z) : fskind :=
  if k =? 1 then FsFile else if k =? 2 then FsDir
  else if k =? 3 then FsOther else FsNone.

(* one table, many probes (method token, PATH_INFO, file-system fact) *)
Definition run_table (U : uclass) (ops : list op) (debug root : bool)
           (probes : list (list Z * list Z * Z)) : V :=
  let (a, outs) := exec U init_app ops in
  VL [VL (map enc_reg outs);
      VL (map (fun q => match q with
                        | (m, p, k) => enc_sel (select U a debug root (fs_of k) m p)
                        end) probes)].

(* the pattern text and the converters a route registers (table view) *)
Definition enc_conv (c : conv) : V :=
  match c with
  | CInt => VX "int" | CFloat => VX "float" | CStr => VX "str"
  | CUuid => VX "UUID" | CTag id => VL [VX "tag"; VZ id]
  end.
Definition run_patterns (U : uclass) (ops : list op) : V :=
  let (a, outs) := exec U init_app ops in
  VL (map (fun p =>
             VL [VS (p_text p); VZ (Z.of_nat (p_n p));
                 VL (map (fun be =>
                            VL [VZ (fst be); VZ (pe_fun (snd be));
                                VL (map (fun nc => VL [VS (fst nc); enc_conv (snd nc)])
                                        (pe_convs (snd be)));
                                match pe_rule (snd be) with
                                | Some u => VS u | None => VN end])
                         (p_tab p))])
          (a_pats a)).

(* filters property of a fresh Application (table tie) *)
Definition run_filters : V :=
  VL (map (fun e => VL [VS (fst e);
                        match fst (snd e) with Some t => VS t | None => VN end;
                        enc_conv (snd (snd e))]) init_filters).

(* language-level cross-check on one pattern and one path:
   [parse ok; derivative whole; derivative prefix; backtracking prefix;
    structured compiler agrees with the parsed text (group routes)] *)
Definition run_regex (U : uclass) (text path : list Z) : V :=
  match parse_regex text with
  | None => VX "unsupported"
  | Some (r, n) =>
      VL [VB (accepts U r path); VB (accepts_prefix U r path);
          match re_match U r path with
          | Some (c, rest) => VL [VL (map enc_value (map (fun o => match o with Some s => VStr s | None => VNone end) (groups_list n c))); VS rest]
          | None => VN
          end]
  end.

Fixpoint re_eqb (a b : re) : bool :=
  match a, b with
  | Eps, Eps => true
  | Cls n1 i1, Cls n2 i2 =>
      Bool.eqb n1 n2 &&
      (fix go (x y : list citem) : bool :=
         match x, y with
         | [], [] => true
         | p :: x', q :: y' =>
             (match p, q with
              | IChr c, IChr d => c =? d
              | IRange a1 b1, IRange a2 b2 => (a1 =? a2) && (b1 =? b2)
              | IDigit, IDigit | IWord, IWord | ISpace, ISpace => true
              | INDigit, INDigit | INWord, INWord | INSpace, INSpace => true
              | IAny, IAny => true
              | _, _ => false
              end) && go x' y'
         | _, _ => false
         end) i1 i2
  | Seq a1 b1, Seq a2 b2 => re_eqb a1 a2 && re_eqb b1 b2
  | Alt a1 b1, Alt a2 b2 => re_eqb a1 a2 && re_eqb b1 b2
  | Star a1, Star a2 => re_eqb a1 a2
  | Group i1 n1 a1, Group i2 n2 a2 =>
      Nat.eqb i1 i2 &&
      (match n1, n2 with
       | Some x, Some y => lz_eqb x y
       | None, None => true
       | _, _ => false
       end) && re_eqb a1 a2
  | EndZ, EndZ => true
  | Eol, Eol => true
  | _, _ => false
  end.

(* does re.compile of the generated text give the expression of the
   structured compiler?  VN when the structured compiler fails closed *)
Definition run_bridge (U : uclass) (ops : list op) (uri : list Z) : V :=
  let (a, _) := exec U init_app ops in
  match compile_route U (a_filters a) uri with
  | None => VN
  | Some (r, n) =>
      match compile_text U (a_filters a) uri with
      | Ok t =>
          match parse_regex t with
          | Some (r', n') => VB (re_eqb r r' && Nat.eqb n n')
          | None => VB false
          end
      | Raised _ => VB false
      end
  end.
