(* Which request inputs the framework consults, and where (properties C02,
   C12, C20).  The census itself is generated from the source on every run
   (gen/InputsGen.v by harness/py2v_inputs.py); this file is the policy it is
   judged by: (function, receiver, how, key) with the source text of the
   receiver. *)
From Coq Require Import List String Bool.
Import ListNotations.
Open Scope string_scope.

Definition keyed_read := (string * string * string * string)%type.
Definition kr_fun (r : keyed_read) : string := fst (fst (fst r)).
Definition kr_key (r : keyed_read) : string := snd r.

(* what the code between the arrival of a request and the choice of its
   endpoint may look up: the inputs of Routing.select / StaticPath.serve /
   Debug.effective and of the body-reading plan of QueryForm.v *)
Definition allowed_dispatch_reads : list keyed_read :=
  [ (* constructing the request: path, streams, body headers *)
    ("request.Request.__init__", "environ", "get", "PATH_INFO");
    ("request.Request.__init__", "environ", "get", "wsgi.errors");
    ("request.Request.__init__", "environ", "get", "wsgi.input");
    ("request.Request.__init__", "pdict", "get", "charset");
    ("request.Request.__init__", "self.__headers", "[]", "Cookie");
    ("request.Request.__init__", "self.__headers", "get", "Content-Length");
    ("request.Request.__init__", "self.__headers", "get", "Content-Type");
    ("request.Request.__init__", "self.__headers", "in", "Cookie");
    ("request.SimpleRequest.__init__", "environ", "[]", "REQUEST_STARTTIME");
    (* the settings and where their overrides come from *)
    ("request.SimpleRequest.__init__", "os.environ", "in", "poor.Version");
    ("request.SimpleRequest.__init__", "self.__environ", "in",
     "uwsgi.version");
    ("request.SimpleRequest.__init__", "self.__poor_environ", "get",
     "poor_Debug");
    ("request.SimpleRequest.document_index", "self.__poor_environ", "get",
     "poor_DocumentIndex");
    ("request.SimpleRequest.document_root", "self.__poor_environ", "get",
     "poor_DocumentRoot");
    (* method and path *)
    ("request.SimpleRequest.method", "self.__environ", "get",
     "REQUEST_METHOD");
    ("request.SimpleRequest.method_number", "methods", "[]", "GET");
    ("request.SimpleRequest.path", "self.__environ", "get", "PATH_INFO");
    (* HTTP/0.9 switch of the body test, uWSGI switch of the file wrapper *)
    ("request.SimpleRequest.server_protocol", "self.__environ", "get",
     "SERVER_PROTOCOL");
    ("request.SimpleRequest.server_software", "self.__environ", "get",
     "SERVER_SOFTWARE");
    ("request.SimpleRequest.server_software", "self.__environ", "in",
     "uwsgi.version");
    (* the request cycle itself *)
    ("wsgi.Application.__profile_request__", "env", "get", "PATH_INFO");
    ("wsgi.Application.__profile_request__", "env", "get", "REQUEST_METHOD");
    ("wsgi.Application.__request__", "env", "[]", "REQUEST_STARTTIME");
    ("wsgi.Application.__request__", "env", "[]", "wsgi.file_wrapper");
    ("wsgi.Application.__request__", "env", "in", "wsgi.file_wrapper") ].

(* the only places that consult a poor_* / poor.* / uwsgi.* key, anywhere in
   wsgi.py and request.py: Debug.effective, StaticPath.document_root/_index
   and the secret key read them from the per-request or process environment
   chosen in SimpleRequest.__init__ *)
Definition allowed_override_reads : list keyed_read :=
  [ ("request.SimpleRequest.__init__", "os.environ", "in", "poor.Version");
    ("request.SimpleRequest.__init__", "self.__environ", "in",
     "uwsgi.version");
    ("request.SimpleRequest.__init__", "self.__poor_environ", "get",
     "poor_Debug");
    ("request.SimpleRequest.document_index", "self.__poor_environ", "get",
     "poor_DocumentIndex");
    ("request.SimpleRequest.document_root", "self.__poor_environ", "get",
     "poor_DocumentRoot");
    ("request.SimpleRequest.secret_key", "self.__poor_environ", "get",
     "poor_SecretKey");
    ("request.SimpleRequest.server_software", "self.__environ", "in",
     "uwsgi.version") ].

Definition kr_eqb (a b : keyed_read) : bool :=
  match a, b with
  | (f, r, m, x), (f', r', m', x') =>
      String.eqb f f' && String.eqb r r' && String.eqb m m' && String.eqb x x'
  end.

Lemma kr_eqb_eq a b : kr_eqb a b = true -> a = b.
Proof.
  destruct a as [[[f r] m] x], b as [[[f' r'] m'] x']. unfold kr_eqb.
  intros H. repeat (apply andb_true_iff in H; destruct H as [H ?]).
  repeat match goal with
         | E : String.eqb _ _ = true |- _ => apply String.eqb_eq in E
         end.
  now subst.
Qed.

Definition in_footprint (foot : list string) (r : keyed_read) : bool :=
  existsb (String.eqb (kr_fun r)) foot.

Definition is_override_key (k : string) : bool :=
  String.prefix "poor" k || String.prefix "uwsgi." k.

(* every read selected by [sel] is one of [allowed] *)
Definition reads_ok (sel : keyed_read -> bool)
  (allowed reads : list keyed_read) : bool :=
  forallb (fun r => negb (sel r) || existsb (kr_eqb r) allowed) reads.

Lemma reads_ok_spec sel allowed reads :
  reads_ok sel allowed reads = true ->
  forall r, In r reads -> sel r = true -> In r allowed.
Proof.
  unfold reads_ok. intros H r Hin Hs. rewrite forallb_forall in H.
  specialize (H r Hin). rewrite Hs in H. cbn [negb orb] in H.
  apply existsb_exists in H. destruct H as [a [Ha He]].
  apply kr_eqb_eq in He. now subst.
Qed.
