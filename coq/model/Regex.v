(* A small regular-expression engine: the model of what PoorWSGI asks of
   Python's [re] module in routing (C02): [re.compile(text, re.U)] on the
   subset of the syntax that route tables use, and [pattern.match(path)]
   with [groups()] / [group(name)] / [groupdict()].

   Layers
   * character classes over code points ([cls_match]); \d \w \s are exact on
     ASCII (CPython 3.12 str patterns: \s = 9-13, 28-31, 32) and delegate to
     a classification [uclass] for code points >= 128 (Python uses the
     Unicode database there; the harness passes the classification of the
     code points of its alphabet as a table and checks it against CPython);
   * the abstract syntax [re]; capturing groups carry their number (Python
     numbers them by opening parenthesis) and optional name.  [? + {n,m}]
     are derived forms ([Opt], [Plus], [Repeat]) over [Alt]/[Seq]/[Star] in
     the greedy order, so that the core has eight constructors;
   * the relational semantics [Matches r s rest]: r matches the text s when
     the remaining input after s is [rest] (the context is needed by the end
     anchors: \Z holds when rest = [], $ when rest = [] or "\n");
     whole-string match = [Matches r s []], [pattern.match] (anchored at the
     start only) = [exists s1 s2, s = s1 ++ s2 /\ Matches r s1 s2];
     [MatchesC] is the same relation annotated with the captures written;
   * two executable matchers: Brzozowski derivatives ([accepts],
     [accepts_prefix]) and a continuation-passing backtracking matcher [bt]
     that explores parses in CPython's order (left alternative first,
     greedy loops) and returns the captures of the first parse found;
   * a fuelled recursive-descent parser from the pattern text to a surface
     syntax [sre] (quantifiers kept, groups not yet numbered; [parse_sre]),
     then [lower]: numbering of the groups by opening parenthesis and
     expansion of the quantifiers; [parse_regex] is the composition plus the
     check that no name is used for two groups.
     It fails closed ([None]) on everything outside the subset (^, \b, \A,
     back-references, look-around, lazy/possessive quantifiers, flags,
     literal ] } {, group names that are not ASCII identifiers, quantified
     sub-expressions that can match the empty string -- CPython's treatment
     of empty loop iterations is not modelled).
   Proofs are in proofs/RegexProofs.v. *)
From Coq Require Import ZArith List Bool.
Require Import PW.lib.Val.
Import ListNotations.
Open Scope list_scope.
Open Scope Z_scope.

(* ------------------------------------------------------------ characters *)
Record uclass := mkU {
  u_digit : Z -> bool;      (* \d on code points >= 128 *)
  u_word  : Z -> bool;      (* \w *)
  u_space : Z -> bool;      (* \s *)
  u_dval  : Z -> Z }.       (* decimal value of a \d code point >= 128 *)

Definition between (lo hi c : Z) : bool := (lo <=? c) && (c <=? hi).
Definition ascii_digit (c : Z) : bool := between 48 57 c.
Definition ascii_word (c : Z) : bool :=
  ascii_digit c || between 65 90 c || between 97 122 c || (c =? 95).
Definition ascii_space (c : Z) : bool :=
  between 9 13 c || between 28 31 c || (c =? 32).

Inductive citem :=
  | IChr (c : Z)
  | IRange (lo hi : Z)
  | IDigit | IWord | ISpace          (* \d \w \s *)
  | INDigit | INWord | INSpace       (* \D \W \S *)
  | IAny.                            (* .  : anything but "\n" *)

Section Classes.
  Variable U : uclass.

  Definition is_digit (c : Z) : bool :=
    if c <? 128 then ascii_digit c else u_digit U c.
  Definition is_word (c : Z) : bool :=
    if c <? 128 then ascii_word c else u_word U c.
  Definition is_space (c : Z) : bool :=
    if c <? 128 then ascii_space c else u_space U c.

  Definition item_match (c : Z) (it : citem) : bool :=
    match it with
    | IChr x => c =? x
    | IRange lo hi => between lo hi c
    | IDigit => is_digit c
    | IWord => is_word c
    | ISpace => is_space c
    | INDigit => negb (is_digit c)
    | INWord => negb (is_word c)
    | INSpace => negb (is_space c)
    | IAny => negb (c =? 10)
    end.

  (* [neg] = the class was written [^...] *)
  Definition cls_match (neg : bool) (items : list citem) (c : Z) : bool :=
    xorb neg (existsb (item_match c) items).
End Classes.

(* ---------------------------------------------------------------- syntax *)
Inductive re :=
  | Eps
  | Cls (neg : bool) (items : list citem)     (* one character *)
  | Seq (a b : re)
  | Alt (a b : re)                            (* a tried first *)
  | Star (a : re)                             (* greedy *)
  | Group (i : nat) (name : option (list Z)) (a : re)
  | EndZ                                      (* \Z *)
  | Eol.                                      (* $ (no MULTILINE) *)

Definition Fail : re := Cls false [].
Definition Chr (c : Z) : re := Cls false [IChr c].
Definition Opt (a : re) : re := Alt a Eps.
Definition Plus (a : re) : re := Seq a (Star a).
Fixpoint Times (n : nat) (a : re) : re :=
  match n with O => Eps | S n' => Seq a (Times n' a) end.
Fixpoint UpTo (n : nat) (a : re) : re :=
  match n with O => Eps | S n' => Alt (Seq a (UpTo n' a)) Eps end.
(* a{lo,hi} ; hi = None: a{lo,} *)
Definition Repeat (a : re) (lo : nat) (hi : option nat) : re :=
  Seq (Times lo a)
      (match hi with None => Star a | Some h => UpTo (h - lo) a end).

(* syntactic over-approximation of "can match the empty string" *)
Fixpoint can_empty (r : re) : bool :=
  match r with
  | Eps => true
  | Cls _ _ => false
  | Seq a b => can_empty a && can_empty b
  | Alt a b => can_empty a || can_empty b
  | Star _ => true
  | Group _ _ a => can_empty a
  | EndZ => true
  | Eol => true
  end.

(* no end anchor inside: matching does not depend on the context *)
Fixpoint anchor_free (r : re) : bool :=
  match r with
  | Eps => true
  | Cls _ _ => true
  | Seq a b => anchor_free a && anchor_free b
  | Alt a b => anchor_free a && anchor_free b
  | Star a => anchor_free a
  | Group _ _ a => anchor_free a
  | EndZ => false
  | Eol => false
  end.

(* (index, name) of the capturing groups, in pattern order (a derived form
   such as [Plus] repeats its body, hence possibly the same pair twice) *)
Fixpoint groups_of (r : re) : list (nat * option (list Z)) :=
  match r with
  | Seq a b => groups_of a ++ groups_of b
  | Alt a b => groups_of a ++ groups_of b
  | Star a => groups_of a
  | Group i nm a => (i, nm) :: groups_of a
  | _ => []
  end.

(* ------------------------------------------------------------- captures *)
(* most recent first; a group that did not take part has no entry *)
Definition caps := list (nat * list Z).
Fixpoint cap_get (i : nat) (c : caps) : option (list Z) :=
  match c with
  | [] => None
  | (j, v) :: c' => if Nat.eqb i j then Some v else cap_get i c'
  end.

Section Semantics.
  Variable U : uclass.

  (* ------------------------------------------------ relational semantics *)
  Inductive Matches : re -> list Z -> list Z -> Prop :=
  | MEps rest : Matches Eps [] rest
  | MCls neg items c rest :
      cls_match U neg items c = true -> Matches (Cls neg items) [c] rest
  | MSeq a b s1 s2 rest :
      Matches a s1 (s2 ++ rest) -> Matches b s2 rest ->
      Matches (Seq a b) (s1 ++ s2) rest
  | MAltL a b s rest : Matches a s rest -> Matches (Alt a b) s rest
  | MAltR a b s rest : Matches b s rest -> Matches (Alt a b) s rest
  | MStar0 a rest : Matches (Star a) [] rest
  | MStarS a s1 s2 rest :
      Matches a s1 (s2 ++ rest) -> Matches (Star a) s2 rest ->
      Matches (Star a) (s1 ++ s2) rest
  | MGroup i nm a s rest : Matches a s rest -> Matches (Group i nm a) s rest
  | MEndZ : Matches EndZ [] []
  | MEol0 : Matches Eol [] []
  | MEol1 : Matches Eol [] [10].

  (* the same, threading the captures: [MatchesC r s rest c c'] = a parse
     of s by r that starts with captures c and ends with c' *)
  Inductive MatchesC : re -> list Z -> list Z -> caps -> caps -> Prop :=
  | CEps rest c : MatchesC Eps [] rest c c
  | CCls neg items ch rest c :
      cls_match U neg items ch = true -> MatchesC (Cls neg items) [ch] rest c c
  | CSeq a b s1 s2 rest c c1 c2 :
      MatchesC a s1 (s2 ++ rest) c c1 -> MatchesC b s2 rest c1 c2 ->
      MatchesC (Seq a b) (s1 ++ s2) rest c c2
  | CAltL a b s rest c c' : MatchesC a s rest c c' -> MatchesC (Alt a b) s rest c c'
  | CAltR a b s rest c c' : MatchesC b s rest c c' -> MatchesC (Alt a b) s rest c c'
  | CStar0 a rest c : MatchesC (Star a) [] rest c c
  | CStarS a s1 s2 rest c c1 c2 :
      MatchesC a s1 (s2 ++ rest) c c1 -> MatchesC (Star a) s2 rest c1 c2 ->
      MatchesC (Star a) (s1 ++ s2) rest c c2
  | CGroup i nm a s rest c c' :
      MatchesC a s rest c c' -> MatchesC (Group i nm a) s rest c ((i, s) :: c')
  | CEndZ c : MatchesC EndZ [] [] c c
  | CEol0 c : MatchesC Eol [] [] c c
  | CEol1 c : MatchesC Eol [] [10] c c.

  (* pattern.match(s): anchored at the start only *)
  Definition MatchesPrefix (r : re) (s : list Z) : Prop :=
    exists s1 s2, s = s1 ++ s2 /\ Matches r s1 s2.

  (* ---------------------------------------------------------- derivatives *)
  (* does r match the empty text when [rest] follows *)
  Fixpoint nullable (rest : list Z) (r : re) : bool :=
    match r with
    | Eps => true
    | Cls _ _ => false
    | Seq a b => nullable rest a && nullable rest b
    | Alt a b => nullable rest a || nullable rest b
    | Star _ => true
    | Group _ _ a => nullable rest a
    | EndZ => match rest with [] => true | _ => false end
    | Eol => match rest with
             | [] => true
             | c :: [] => c =? 10
             | _ => false
             end
    end.

  Definition is_fail (r : re) : bool :=
    match r with Cls false [] => true | _ => false end.
  Definition is_eps (r : re) : bool :=
    match r with Eps => true | _ => false end.
  Definition mkSeq (a b : re) : re :=
    if is_fail a then Fail else if is_eps a then b else Seq a b.
  Definition mkAlt (a b : re) : re :=
    if is_fail a then b else if is_fail b then a else Alt a b.

  (* derivative by the character c; [rest] is the input after c *)
  Fixpoint deriv (c : Z) (rest : list Z) (r : re) : re :=
    match r with
    | Eps => Fail
    | Cls neg items => if cls_match U neg items c then Eps else Fail
    | Seq a b =>
        mkAlt (mkSeq (deriv c rest a) b)
              (if nullable (c :: rest) a then deriv c rest b else Fail)
    | Alt a b => mkAlt (deriv c rest a) (deriv c rest b)
    | Star a => mkSeq (deriv c rest a) (Star a)
    | Group _ _ a => deriv c rest a
    | EndZ => Fail
    | Eol => Fail
    end.

  (* whole-string acceptance *)
  Fixpoint accepts (r : re) (s : list Z) : bool :=
    match s with
    | [] => nullable [] r
    | c :: s' => accepts (deriv c s' r) s'
    end.

  (* some prefix of s is matched (what [pattern.match] decides) *)
  Fixpoint accepts_prefix (r : re) (s : list Z) : bool :=
    nullable s r ||
    match s with
    | [] => false
    | c :: s' => accepts_prefix (deriv c s' r) s'
    end.

  (* -------------------------------------------------- backtracking matcher *)
  Section BT.
    Context {R : Type}.
    Definition kont := list Z -> caps -> option R.

    (* greedy loop: try one more iteration (which must consume something),
       else leave the loop.  n >= length s iterations are enough *)
    Fixpoint star_loop (m : list Z -> caps -> kont -> option R) (n : nat)
             (s : list Z) (c : caps) (k : kont) : option R :=
      match n with
      | O => k s c
      | S n' =>
          match m s c (fun s' c' =>
                         if Nat.ltb (length s') (length s)
                         then star_loop m n' s' c' k else None) with
          | Some x => Some x
          | None => k s c
          end
      end.

    (* [bt r s c k]: first parse, in CPython's search order, of a prefix of
       s by r whose continuation k (given the remaining input and the
       captures) succeeds *)
    Fixpoint bt (r : re) (s : list Z) (c : caps) (k : kont) {struct r}
      : option R :=
      match r with
      | Eps => k s c
      | Cls neg items =>
          match s with
          | ch :: s' => if cls_match U neg items ch then k s' c else None
          | [] => None
          end
      | Seq a b => bt a s c (fun s' c' => bt b s' c' k)
      | Alt a b =>
          match bt a s c k with
          | Some x => Some x
          | None => bt b s c k
          end
      | Star a => star_loop (bt a) (length s) s c k
      | Group i _ a =>
          bt a s c (fun s' c' =>
                      k s' ((i, firstn (length s - length s') s) :: c'))
      | EndZ => match s with [] => k s c | _ => None end
      | Eol => match s with
               | [] => k s c
               | ch :: [] => if ch =? 10 then k s c else None
               | _ => None
               end
      end.
  End BT.

  (* pattern.match(s): captures and unconsumed rest of the first parse *)
  Definition re_match (r : re) (s : list Z) : option (caps * list Z) :=
    bt r s [] (fun s' c => Some (c, s')).
End Semantics.

(* match.groups(): groups 1..n (model indices 0..n-1), None if unset *)
Definition groups_list (n : nat) (c : caps) : list (option (list Z)) :=
  map (fun i => cap_get i c) (seq 0 n).

(* index of the group called [nm] *)
Fixpoint name_index (nm : list Z) (gs : list (nat * option (list Z)))
  : option nat :=
  match gs with
  | [] => None
  | (i, Some x) :: gs' => if lz_eqb nm x then Some i else name_index nm gs'
  | (_, None) :: gs' => name_index nm gs'
  end.

(* match.group(name) *)
Definition group_by_name (r : re) (c : caps) (nm : list Z)
  : option (list Z) :=
  match name_index nm (groups_of r) with
  | Some i => cap_get i c
  | None => None
  end.

(* names in order of group number, each once: the keys of groupdict() *)
Fixpoint named_upto (gs : list (nat * option (list Z))) (n : nat) (i : nat)
  : list (list Z * nat) :=
  match n with
  | O => []
  | S n' =>
      match find (fun g => Nat.eqb (fst g) i) gs with
      | Some (_, Some nm) => (nm, i) :: named_upto gs n' (S i)
      | _ => named_upto gs n' (S i)
      end
  end.
Definition group_names (r : re) (n : nat) : list (list Z * nat) :=
  named_upto (groups_of r) n 0.

(* -------------------------------------------------------- surface syntax *)
(* surface syntax: what the parser reads; groups are not numbered yet and
   quantifiers are kept.  A non-capturing group leaves no node. *)
Inductive sre :=
  | SEps
  | SCls (neg : bool) (items : list citem)
  | SSeq (a b : sre)
  | SAlt (a b : sre)
  | SStar (a : sre)
  | SPlus (a : sre)
  | SOpt (a : sre)
  | SRep (a : sre) (lo : nat) (hi : option nat)
  | SGroup (name : option (list Z)) (a : sre)
  | SEndZ
  | SEol.

Fixpoint s_can_empty (a : sre) : bool :=
  match a with
  | SEps => true
  | SCls _ _ => false
  | SSeq a b => s_can_empty a && s_can_empty b
  | SAlt a b => s_can_empty a || s_can_empty b
  | SStar _ => true
  | SPlus a => s_can_empty a
  | SOpt _ => true
  | SRep a lo _ => Nat.eqb lo 0 || s_can_empty a
  | SGroup _ a => s_can_empty a
  | SEndZ => true
  | SEol => true
  end.

(* numbering of the groups (by opening parenthesis, from n) and expansion
   of the quantifiers; returns the next free number *)
Fixpoint lower (a : sre) (n : nat) : re * nat :=
  match a with
  | SEps => (Eps, n)
  | SCls neg items => (Cls neg items, n)
  | SSeq a b =>
      let (a', n1) := lower a n in
      let (b', n2) := lower b n1 in (Seq a' b', n2)
  | SAlt a b =>
      let (a', n1) := lower a n in
      let (b', n2) := lower b n1 in (Alt a' b', n2)
  | SStar a => let (a', n1) := lower a n in (Star a', n1)
  | SPlus a => let (a', n1) := lower a n in (Plus a', n1)
  | SOpt a => let (a', n1) := lower a n in (Opt a', n1)
  | SRep a lo hi => let (a', n1) := lower a n in (Repeat a' lo hi, n1)
  | SGroup nm a => let (a', n1) := lower a (S n) in (Group n nm a', n1)
  | SEndZ => (EndZ, n)
  | SEol => (Eol, n)
  end.

(* ---------------------------------------------------------------- parser *)
Definition is_meta (c : Z) : bool :=
  (c =? 36) || (c =? 40) || (c =? 41) || (c =? 42) || (c =? 43) ||
  (c =? 46) || (c =? 63) || (c =? 91) || (c =? 92) || (c =? 93) ||
  (c =? 94) || (c =? 123) || (c =? 124) || (c =? 125).

(* ASCII punctuation: a backslash before it makes it a literal *)
Definition is_punct (c : Z) : bool :=
  between 33 47 c || between 58 64 c || between 91 96 c || between 123 126 c.

(* \d \w \s \D \W \S *)
Definition class_escape (x : Z) : option citem :=
  if x =? 100 then Some IDigit else if x =? 119 then Some IWord
  else if x =? 115 then Some ISpace else if x =? 68 then Some INDigit
  else if x =? 87 then Some INWord else if x =? 83 then Some INSpace
  else None.

(* after a backslash, outside a class *)
Definition p_escape (t : list Z) : option (sre * list Z) :=
  match t with
  | [] => None
  | x :: t' =>
      match class_escape x with
      | Some it => Some (SCls false [it], t')
      | None =>
          if x =? 90 then Some (SEndZ, t')
          else if is_punct x then Some (SCls false [IChr x], t')
          else None
      end
  end.

(* one member of a bracket class: a set escape or a character *)
Inductive single := SSet (it : citem) | SChr (c : Z).
Definition p_single (t : list Z) : option (single * list Z) :=
  match t with
  | [] => None
  | c :: t' =>
      if c =? 92 then
        match t' with
        | [] => None
        | x :: t'' =>
            match class_escape x with
            | Some it => Some (SSet it, t'')
            | None => if is_punct x then Some (SChr x, t'') else None
            end
        end
      else if c =? 91 then None
      else Some (SChr c, t')
  end.

Definition single_item (s : single) : citem :=
  match s with SSet it => it | SChr c => IChr c end.

Fixpoint p_items (f : nat) (t : list Z) (acc : list citem)
  : option (list citem * list Z) :=
  match f with
  | O => None
  | S f' =>
      match t with
      | [] => None
      | c :: t0 =>
          if c =? 93 then Some (rev acc, t0)
          else
            match p_single t with
            | None => None
            | Some (s1, t1) =>
                match t1 with
                | d :: t2 =>
                    if d =? 45 then
                      match t2 with
                      | e :: t3 =>
                          if e =? 93 then
                            Some (rev (IChr 45 :: single_item s1 :: acc), t3)
                          else
                            match s1, p_single t2 with
                            | SChr lo, Some (SChr hi, t4) =>
                                if hi <? lo then None
                                else p_items f' t4 (IRange lo hi :: acc)
                            | _, _ => None
                            end
                      | [] => None
                      end
                    else p_items f' t1 (single_item s1 :: acc)
                | [] => None
                end
            end
      end
  end.

(* after "[" *)
Definition p_class (t : list Z) : option (bool * list citem * list Z) :=
  match t with
  | [] => None
  | c :: t' =>
      let neg := c =? 94 in
      let body := if neg then t' else t in
      match body with
      | [] => None
      | d :: _ =>
          if d =? 93 then None            (* "[]..." : literal "]", not modelled *)
          else match p_items (S (length body)) body [] with
               | Some (items, rest) => Some (neg, items, rest)
               | None => None
               end
      end
  end.

(* decimal number of at most 3 digits; (value, digits read, rest) *)
Fixpoint p_num (f : nat) (t : list Z) (acc : nat) (k : nat)
  : nat * nat * list Z :=
  match f with
  | O => (acc, k, t)
  | S f' =>
      match t with
      | c :: t' =>
          if ascii_digit c
          then p_num f' t' (10 * acc + Z.to_nat (c - 48))%nat (S k)
          else (acc, k, t)
      | [] => (acc, k, t)
      end
  end.

(* after "{": n} n,} ,m} n,m} *)
Definition p_braces (t : list Z) : option (nat * option nat * list Z) :=
  match p_num 4 t 0 0 with
  | (lo, k1, t1) =>
      if Nat.ltb 3 k1 then None else
      match t1 with
      | c :: t2 =>
          if c =? 125 then
            if Nat.eqb k1 0 then None else Some (lo, Some lo, t2)
          else if c =? 44 then
            match p_num 4 t2 0 0 with
            | (hi, k2, t3) =>
                if Nat.ltb 3 k2 then None else
                match t3 with
                | d :: t4 =>
                    if d =? 125 then
                      if Nat.eqb k2 0 then
                        if Nat.eqb k1 0 then None else Some (lo, None, t4)
                      else if Nat.ltb hi lo then None
                           else Some (lo, Some hi, t4)
                    else None
                | [] => None
                end
            end
          else None
      | [] => None
      end
  end.

Definition is_quant_char (c : Z) : bool :=
  (c =? 42) || (c =? 43) || (c =? 63) || (c =? 123).

(* a quantifier has been read: the atom must not match the empty string
   and no second quantifier (or lazy/possessive mark) may follow *)
Definition q_finish (a q : sre) (t1 : list Z) : option (sre * list Z) :=
  if s_can_empty a then None
  else match t1 with
       | c :: _ => if is_quant_char c then None else Some (q, t1)
       | [] => Some (q, t1)
       end.

(* optional quantifier after the atom a *)
Definition p_quant (a : sre) (t : list Z) : option (sre * list Z) :=
  match t with
  | [] => Some (a, t)
  | c :: t1 =>
      if c =? 42 then q_finish a (SStar a) t1
      else if c =? 43 then q_finish a (SPlus a) t1
      else if c =? 63 then q_finish a (SOpt a) t1
      else if c =? 123 then
        match p_braces t1 with
        | Some (lo, hi, t2) => q_finish a (SRep a lo hi) t2
        | None => None
        end
      else Some (a, t)
  end.

Definition ident_start (c : Z) : bool :=
  between 65 90 c || between 97 122 c || (c =? 95).

(* group name up to ">" : an ASCII identifier *)
Fixpoint p_name (t : list Z) (acc : list Z) : option (list Z * list Z) :=
  match t with
  | [] => None
  | c :: t' =>
      if c =? 62 then
        match rev acc with
        | [] => None
        | (x :: _) as nm => if ident_start x then Some (nm, t') else None
        end
      else if ascii_word c then p_name t' (c :: acc) else None
  end.

Inductive ghead := GCap (nm : option (list Z)) | GNon.
(* after "(" *)
Definition p_ghead (t : list Z) : option (ghead * list Z) :=
  match t with
  | c :: t1 =>
      if c =? 63 then
        match t1 with
        | d :: t2 =>
            if d =? 58 then Some (GNon, t2)
            else if d =? 80 then
              match t2 with
              | e :: t3 =>
                  if e =? 60 then
                    match p_name t3 [] with
                    | Some (nm, t4) => Some (GCap (Some nm), t4)
                    | None => None
                    end
                  else None
              | [] => None
              end
            else None
        | [] => None
        end
      else Some (GCap None, t)
  | [] => Some (GCap None, t)
  end.

Definition at_stop (t : list Z) : bool :=
  match t with
  | [] => true
  | c :: _ => (c =? 41) || (c =? 124)
  end.

(* atoms that need no recursion: class, escape, ".", "$", literal *)
Definition p_simple (c : Z) (t1 : list Z) : option (sre * list Z) :=
  if c =? 91 then
    match p_class t1 with
    | Some (neg, items, t2) => Some (SCls neg items, t2)
    | None => None
    end
  else if c =? 92 then p_escape t1
  else if c =? 46 then Some (SCls false [IAny], t1)
  else if c =? 36 then Some (SEol, t1)
  else if is_meta c then None
  else Some (SCls false [IChr c], t1).

(* result: (expression, unread text) *)
Definition pres := option (sre * list Z).

Fixpoint p_alt (f : nat) (t : list Z) {struct f} : pres :=
  match f with
  | O => None
  | S f' =>
      match p_seq f' t with
      | Some (a, t1) =>
          match t1 with
          | c :: t2 =>
              if c =? 124 then
                match p_alt f' t2 with
                | Some (b, t3) => Some (SAlt a b, t3)
                | None => None
                end
              else Some (a, t1)
          | [] => Some (a, t1)
          end
      | None => None
      end
  end
with p_seq (f : nat) (t : list Z) {struct f} : pres :=
  match f with
  | O => None
  | S f' =>
      if at_stop t then Some (SEps, t)
      else
        match p_atom f' t with
        | Some (a, t1) =>
            match p_quant a t1 with
            | Some (q, t2) =>
                match p_seq f' t2 with
                | Some (b, t3) => Some (SSeq q b, t3)
                | None => None
                end
            | None => None
            end
        | None => None
        end
  end
with p_atom (f : nat) (t : list Z) {struct f} : pres :=
  match f with
  | O => None
  | S f' =>
      match t with
      | [] => None
      | c :: t1 =>
          if c =? 40 then
            match p_ghead t1 with
            | Some (g, t2) =>
                match p_alt f' t2 with
                | Some (a, t3) =>
                    match t3 with
                    | d :: t4 =>
                        if d =? 41 then
                          Some (match g with
                                | GCap nm => SGroup nm a
                                | GNon => a
                                end, t4)
                        else None
                    | [] => None
                    end
                | None => None
                end
            | None => None
            end
          else p_simple c t1
      end
  end.

Definition parse_fuel (t : list Z) : nat := (3 * length t + 3)%nat.

(* the whole text must be read *)
Definition parse_sre (t : list Z) : option sre :=
  match p_alt (parse_fuel t) t with
  | Some (a, []) => Some a
  | _ => None
  end.

(* no name is given to two different groups (re.error in CPython) *)
Fixpoint names_ok (gs : list (nat * option (list Z))) : bool :=
  match gs with
  | [] => true
  | (i, Some nm) :: gs' =>
      forallb (fun g => match g with
                        | (j, Some x) => negb (lz_eqb nm x) || Nat.eqb i j
                        | _ => true
                        end) gs' && names_ok gs'
  | (_, None) :: gs' => names_ok gs'
  end.

Definition finish_regex (a : sre) : option (re * nat) :=
  let (r, n) := lower a 0 in
  if names_ok (groups_of r) then Some (r, n) else None.

(* re.compile(text, re.U) on the modelled subset: (expression, number of
   groups); None = outside the subset (or a re.error) *)
Definition parse_regex (t : list Z) : option (re * nat) :=
  match parse_sre t with
  | Some a => finish_regex a
  | None => None
  end.
