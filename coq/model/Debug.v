(* Model for C20 (diagnostic detail only when debug is on):
   - SimpleRequest.__init__: the effective debug flag (request.py l.49-59),
   - the two debug gates at the end of handler_from_table (wsgi.py) that make
     /debug-info reachable,
   - the structure of results.internal_server_error (what the 500 page
     contains with debug on / off); literal chunks of the page are
     parameters, supplied from the source text by the harness. *)
From Coq Require Import ZArith List Bool String.
Require Import PW.lib.Val.
Import ListNotations.
Open Scope string_scope.
Open Scope list_scope.
Open Scope Z_scope.

Definition lower1 (c : Z) : Z := if (65 <=? c) && (c <=? 90) then c + 32 else c.
Definition lower (s : list Z) : list Z := map lower1 s.

(* environ lookups are option: absent / present *)
Record denv := mkDenv {
  has_uwsgi_version : bool;          (* 'uwsgi.version' in request environ *)
  os_has_poor_version : bool;        (* 'poor.Version' in os.environ *)
  env_poor_debug : option (list Z);  (* request environ poor_Debug *)
  os_poor_debug : option (list Z) }. (* os.environ poor_Debug *)

(* var = poor_environ.get('poor_Debug'); if var: var.lower() == 'on' else app.debug *)
Definition effective_debug (e : denv) (app_debug : bool) : bool :=
  let var := if has_uwsgi_version e || os_has_poor_version e
             then os_poor_debug e else env_poor_debug e in
  match var with
  | None => app_debug
  | Some [] => app_debug
  | Some s => lz_eqb (lower s) (s2l "on")
  end.

(* what handler_from_table does once static and pattern routes missed *)
Inductive tail_leaf := TDebugPage | TDefault | TFile | TListing | TForbidden.
Inductive fsnode := Missing | FileR | DirR | Other.
Definition routing_tail (debug : bool) (docroot_set get_or_head : bool)
           (is_debug_info_path : bool) (node : fsnode) (index_on : bool)
  : tail_leaf :=
  if docroot_set && get_or_head then
    match node with
    | Missing => if debug && is_debug_info_path then TDebugPage else TDefault
    | FileR => TFile
    | DirR => if index_on then TListing else TForbidden
    | Other => TForbidden
    end
  else if debug && is_debug_info_path then TDebugPage else TDefault.

(* ---------- the 500 page *)
Definition esc1 (c : Z) : list Z :=
  if c =? 38 then s2l "&amp;" else if c =? 34 then s2l "&quot;"
  else if c =? 39 then s2l "&apos;" else if c =? 62 then s2l "&gt;"
  else if c =? 60 then s2l "&lt;" else [c].
Definition html_escape (s : list Z) : list Z := flat_map esc1 s.

Record diag := mkDiag {          (* everything that describes the failure *)
  d_remote_host : list Z; d_remote_addr : list Z; d_method : list Z;
  d_uri : list Z; d_uri_rule : list Z;
  d_handler : list Z;            (* "module.name(args)" *)
  d_traceback : list (list Z) }. (* lines of format_exception *)

(* literal chunks of the page, in source order *)
Record lits := mkLits {
  l_head : list Z;       (* "<!DOCTYPE html>... <h1>500 - ...</h1>\n" *)
  l_rh : list Z; l_ra : list Z; l_me : list Z; l_uri : list Z; l_rule : list Z;
  l_hd : list Z; l_hd_end : list Z;       (* detail block literals *)
  l_tb_head : list Z;                     (* "<h2>Exception Traceback</h2>\n  <pre>\n" *)
  l_span0 : list Z; l_span1 : list Z; l_span_end : list Z;
  l_on_a : list Z; l_on_b : list Z; l_on_c : list Z;   (* "  </pre>..%s..%s.." *)
  l_off_a : list Z; l_off_b : list Z;     (* "  <hr>\n  <small><i>webmaster: " / " </i></small>\n" *)
  l_foot : list Z }.

Fixpoint tb_lines (L : lits) (i : nat) (lines : list (list Z)) : list Z :=
  match lines with
  | [] => []
  | x :: rest =>
      (if Nat.even i then l_span0 L else l_span1 L) ++ html_escape x ++
      l_span_end L ++ tb_lines L (S i) rest
  end.

Definition page500 (L : lits) (debug : bool) (software admin : list Z)
           (d : diag) : list Z :=
  l_head L ++
  (if debug then
     l_rh L ++ d_remote_host d ++ l_ra L ++ d_remote_addr d ++ l_me L ++
     d_method d ++ l_uri L ++ html_escape (d_uri d) ++ l_rule L ++
     html_escape (d_uri_rule d) ++ l_hd L ++ d_handler d ++ l_hd_end L ++
     l_tb_head L ++ tb_lines L 0 (d_traceback d) ++
     l_on_a L ++ software ++ l_on_b L ++ html_escape admin ++ l_on_c L
   else l_off_a L ++ html_escape admin ++ l_off_b L) ++
  l_foot L.

(* correspondence entry points *)
Definition run_effective (uw pv : bool) (ed od : option (list Z)) (app : bool) : V :=
  VB (effective_debug (mkDenv uw pv ed od) app).
Definition run_page500_off (L : lits) (software admin : list Z) : V :=
  VS (page500 L false software admin (mkDiag [] [] [] [] [] [] [])).
