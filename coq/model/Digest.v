(* Model of HTTP Digest authentication in PoorWSGI (C11):
     poorwsgi/request.py  RE_AUTHORIZATION, Request.authorization, path, query
     poorwsgi/digest.py   check_response, check_credentials, check_digest
     poorwsgi/session.py  check_token (imported from PW.model.Token)

   Python str = list Z (code points).  The model of the tokenizer is exact
   for code points <= 255 (what a WSGI server may put into environ, PEP 3333);
   [\w] above U+00FF and str.strip()/capitalize() above U+00FF are outside
   the model.  A dict is an association list with shadowing: [dset] prepends,
   [dget] returns the first hit, so "last assignment wins" as in Python.

   Hashes are Section variables:
     Ht : sha256(text.encode()).hexdigest() of session.py (nonce),
     Hh : app.auth_hash(text.encode()).hexdigest() (MD5 or SHA-256),
     Ho : sha256(text.encode()).hexdigest() of digest.py (opaque),
     Unq: urllib.parse.unquote (a concrete [unquote] is defined below and used
          for the correspondence; the theorems hold for any function).
   Python exceptions are explicit: [CRKeyError] inside check_response (caught
   by check_credentials), [Crash] at the level of the decorator. *)
From Coq Require Import ZArith List Bool String.
Require Import PW.lib.Val PW.lib.Dec PW.model.Token.
Import ListNotations.
Open Scope string_scope.
Open Scope list_scope.
Open Scope Z_scope.

Definition str := list Z.
Definition dict := list (str * str).

(* ------------------------------------------------------------ dict, str *)
Fixpoint dget (k : str) (d : dict) : option str :=
  match d with
  | [] => None
  | (k', v) :: d' => if lz_eqb k k' then Some v else dget k d'
  end.
Definition dset (k v : str) (d : dict) : dict := (k, v) :: d.
(* app.auth_map: realm -> (user -> hash) *)
Fixpoint mget (k : str) (m : list (str * dict)) : option dict :=
  match m with
  | [] => None
  | (k', v) :: m' => if lz_eqb k k' then Some v else mget k m'
  end.
Definition dgetd (k : str) (d : dict) : str :=
  match dget k d with Some v => v | None => [] end.

Definition nonempty (s : str) : bool :=
  match s with [] => false | _ => true end.       (* Python truthiness *)
Definition is_some {A} (o : option A) : bool :=
  match o with Some _ => true | None => false end.
(* [auth.get(k) == s] *)
Definition opt_eqb (o : option str) (s : str) : bool :=
  match o with Some v => lz_eqb v s | None => false end.

Fixpoint starts_with (p s : str) : bool :=        (* s.startswith(p) *)
  match p, s with
  | [], _ => true
  | a :: p', b :: s' => (a =? b) && starts_with p' s'
  | _ :: _, [] => false
  end.
Definition ends_with (s suf : str) : bool := starts_with (rev suf) (rev s).

Fixpoint span (p : Z -> bool) (s : str) : str * str :=
  match s with
  | [] => ([], [])
  | c :: s' => if p c then let (a, b) := span p s' in (c :: a, b)
               else ([], s)
  end.

(* text after the first occurrence of [sub]; None when it does not occur *)
Fixpoint after_sub (sub s : str) {struct s} : option str :=
  if starts_with sub s then Some (skipn (List.length sub) s)
  else match s with [] => None | _ :: s' => after_sub sub s' end.

(* s.partition(c) -> (head, tail) ; tail = [] when c is absent *)
Definition partition_at (c : Z) (s : str) : str * str :=
  let (a, b) := span (fun x => negb (x =? c)) s in
  (a, match b with [] => [] | _ :: b' => b' end).

(* ------------------------------------------------------------ constants *)
Definition k_type      : str := [116;121;112;101].
Definition k_username  : str := [117;115;101;114;110;97;109;101].
Definition k_usernameS : str := [117;115;101;114;110;97;109;101;42].
Definition k_realm     : str := [114;101;97;108;109].
Definition k_nonce     : str := [110;111;110;99;101].
Definition k_uri       : str := [117;114;105].
Definition k_algorithm : str := [97;108;103;111;114;105;116;104;109].
Definition k_response  : str := [114;101;115;112;111;110;115;101].
Definition k_opaque    : str := [111;112;97;113;117;101].
Definition k_qop       : str := [113;111;112].
Definition k_nc        : str := [110;99].
Definition k_cnonce    : str := [99;110;111;110;99;101].
Definition k_hash1     : str := [104;97;115;104;49].
Definition k_hash2     : str := [104;97;115;104;50].
Definition k_method    : str := [109;101;116;104;111;100].
Definition s_Digest    : str := [68;105;103;101;115;116].
Definition s_sess      : str := [45;115;101;115;115].         (* "-sess" *)
Definition s_utf8tag   : str := [85;84;70;45;56;39;39].       (* UTF-8 and two apostrophes *)
Definition s_scheme    : str := [58;47;47].                   (* "://" *)

(* ---------------------------------------------------------------- UTF-8 *)
Inductive ustep := UChar (cp : Z) (n : nat) | UErr (n : nat).

Definition in_rng (lo hi b : Z) : bool := (lo <=? b) && (b <=? hi).
Definition is_cont (b : Z) : bool := in_rng 128 191 b.

(* one step of CPython's UTF-8 decoder at a non-empty input: a character and
   its length, or an error covering the maximal valid prefix of a sequence *)
Definition utf8_step (s : list Z) : ustep :=
  match s with
  | [] => UErr 1
  | b0 :: r =>
    if b0 <? 128 then UChar b0 1
    else if b0 <? 194 then UErr 1
    else if b0 <? 224 then
      match r with
      | b1 :: _ => if is_cont b1 then UChar ((b0 - 192) * 64 + (b1 - 128)) 2
                   else UErr 1
      | [] => UErr 1
      end
    else if b0 <? 240 then
      let lo := if b0 =? 224 then 160 else 128 in
      let hi := if b0 =? 237 then 159 else 191 in
      match r with
      | b1 :: r1 =>
        if in_rng lo hi b1 then
          match r1 with
          | b2 :: _ =>
            if is_cont b2
            then UChar ((b0 - 224) * 4096 + (b1 - 128) * 64 + (b2 - 128)) 3
            else UErr 2
          | [] => UErr 2
          end
        else UErr 1
      | [] => UErr 1
      end
    else if b0 <? 245 then
      let lo := if b0 =? 240 then 144 else 128 in
      let hi := if b0 =? 244 then 143 else 191 in
      match r with
      | b1 :: r1 =>
        if in_rng lo hi b1 then
          match r1 with
          | b2 :: r2 =>
            if is_cont b2 then
              match r2 with
              | b3 :: _ =>
                if is_cont b3
                then UChar ((b0 - 240) * 262144 + (b1 - 128) * 4096
                            + (b2 - 128) * 64 + (b3 - 128)) 4
                else UErr 3
              | [] => UErr 3
              end
            else UErr 2
          | [] => UErr 2
          end
        else UErr 1
      | [] => UErr 1
      end
    else UErr 1
  end.

(* bytes.decode('utf-8', errors); strict: None = UnicodeDecodeError,
   otherwise errors='replace' *)
Fixpoint utf8_dec (strict : bool) (fuel : nat) (s : list Z) : option str :=
  match fuel with
  | O => Some []
  | S f =>
    match s with
    | [] => Some []
    | _ =>
      match utf8_step s with
      | UChar cp n => option_map (cons cp) (utf8_dec strict f (skipn n s))
      | UErr n =>
        if strict then None
        else option_map (cons 65533) (utf8_dec strict f (skipn n s))
      end
    end
  end.
Definition utf8_decode (strict : bool) (s : list Z) : option str :=
  utf8_dec strict (List.length s) s.

(* Headers.utf8 / Request.path: value.encode('iso-8859-1').decode('utf-8'),
   the value itself on UnicodeError *)
Definition utf8_fix (v : str) : str :=
  if forallb (in_rng 0 255) v then
    match utf8_decode true v with Some t => t | None => v end
  else v.

(* ------------------------------------------------- urllib.parse.unquote *)
Definition hexval (c : Z) : option Z :=
  if in_rng 48 57 c then Some (c - 48)
  else if in_rng 65 70 c then Some (c - 55)
  else if in_rng 97 102 c then Some (c - 87)
  else None.

(* _unquote_impl on an ASCII run: %XX -> byte, other '%' verbatim *)
Fixpoint pct_decode (s : list Z) : list Z :=
  match s with
  | [] => []
  | c :: s' =>
    if c =? 37 then
      match s' with
      | a :: b :: r =>
        match hexval a, hexval b with
        | Some x, Some y => (16 * x + y) :: pct_decode r
        | _, _ => c :: pct_decode s'
        end
      | _ => c :: pct_decode s'
      end
    else c :: pct_decode s'
  end.

Definition is_ascii (c : Z) : bool := c <? 128.

(* unquote(string): every maximal ASCII run is percent-decoded to bytes and
   decoded as UTF-8 with errors='replace'; other characters are kept *)
Fixpoint unquote_fuel (fuel : nat) (s : str) : str :=
  match fuel with
  | O => []
  | S f =>
    match s with
    | [] => []
    | c :: s' =>
      if is_ascii c then
        let (run, rest) := span is_ascii s in
        match utf8_decode false (pct_decode run) with
        | Some t => t ++ unquote_fuel f rest
        | None => unquote_fuel f rest
        end
      else c :: unquote_fuel f s'
    end
  end.
Definition unquote (s : str) : str := unquote_fuel (List.length s) s.

(* ------------------------------------------------------- the tokenizer *)
(* Python's Unicode [\w] restricted to code points <= 255 *)
Definition is_word (c : Z) : bool :=
  in_rng 48 57 c || in_rng 65 90 c || (c =? 95) || in_rng 97 122 c ||
  (c =? 170) || (c =? 178) || (c =? 179) || (c =? 181) || (c =? 185) ||
  (c =? 186) || in_rng 188 190 c || in_rng 192 214 c || in_rng 216 246 c ||
  in_rng 248 255 c.
(* [\w\-\'%] *)
Definition is_valch (c : Z) : bool :=
  is_word c || (c =? 45) || (c =? 39) || (c =? 37).

(* one attempt of RE_AUTHORIZATION, i.e. word+ star? equals space?
   (dquote non-dquote+ dquote | valch+), at the head of [s]:
   (key, raw value, rest).  Backtracking cannot change the outcome: a
   shorter \w+ is followed by a word character, an unmatched ' ?' leaves a
   space in front of the value, and the second alternative cannot start at
   a double quote. *)
Definition match_here (s : str) : option (str * str * str) :=
  let (w, r1) := span is_word s in
  match w with
  | [] => None
  | _ =>
    let (key, r2) := match r1 with
                     | 42 :: r => (w ++ [42], r)
                     | _ => (w, r1)
                     end in
    match r2 with
    | 61 :: r3 =>
      let r4 := match r3 with 32 :: r => r | _ => r3 end in
      match r4 with
      | 34 :: r5 =>
        let (q, r6) := span (fun c => negb (c =? 34)) r5 in
        match q, r6 with
        | _ :: _, 34 :: r7 => Some (key, 34 :: q ++ [34], r7)
        | _, _ => None
        end
      | _ =>
        let (v, r5) := span is_valch r4 in
        match v with
        | [] => None
        | _ => Some (key, v, r5)
        end
      end
    | _ => None
    end
  end.

(* RE_AUTHORIZATION.findall *)
Fixpoint findall (fuel : nat) (s : str) : list (str * str) :=
  match fuel with
  | O => []
  | S f =>
    match s with
    | [] => []
    | _ :: s' =>
      match match_here s with
      | Some (k, v, rest) => (k, v) :: findall f rest
      | None => findall f s'
      end
    end
  end.

Fixpoint lstrip (p : Z -> bool) (s : str) : str :=
  match s with
  | c :: s' => if p c then lstrip p s' else s
  | [] => []
  end.
Definition strip (p : Z -> bool) (s : str) : str :=
  rev (lstrip p (rev (lstrip p s))).
Definition is_quote (c : Z) : bool := c =? 34.
(* str.isspace for code points <= 255 *)
Definition is_space (c : Z) : bool :=
  in_rng 9 13 c || in_rng 28 32 c || (c =? 133) || (c =? 160).

Definition ascii_upper (c : Z) : Z := if in_rng 97 122 c then c - 32 else c.
Definition ascii_lower (c : Z) : Z := if in_rng 65 90 c then c + 32 else c.
(* str.capitalize, exact on ASCII; only ever compared with 'Digest' *)
Definition capitalize (s : str) : str :=
  match s with [] => [] | c :: s' => ascii_upper c :: map ascii_lower s' end.

(* auth[:auth.find(' ')] *)
Definition type_prefix (auth : str) : str :=
  let (a, b) := span (fun c => negb (c =? 32)) auth in
  match b with [] => removelast auth | _ => a end.

Section Digest.
  Variable Ht : str -> str.
  Variable Hh : str -> str.
  Variable Ho : str -> str.
  Variable Unq : str -> str.

  (* Request.authorization for the header text [raw] *)
  Definition parse_authorization (raw : str) : dict :=
    let auth := strip is_space raw in
    let d0 := fold_left
                (fun d kv => dset (fst kv) (utf8_fix (strip is_quote (snd kv))) d)
                (findall (List.length auth) auth) [] in
    let d1 := dset k_type (capitalize (type_prefix auth)) d0 in
    match dget k_usernameS d1 with
    | Some u =>
      if nonempty u && starts_with s_utf8tag u
      then dset k_username (Unq (skipn 7 u)) d1
      else d1
    | None => d1
    end.

  (* application configuration, decorator arguments and the request *)
  Record env := {
    c_algorithm : str;           (* app.auth_algorithm *)
    c_qop : str;                 (* app.auth_qop; [] = '' or None *)
    c_timeout : option Z;        (* app.auth_timeout *)
    c_map : list (str * dict);   (* app.auth_map: realm -> user -> hash *)
    c_secret : str;              (* str(req.secret_key) *)
    c_realm : str;               (* check_digest(realm, ...) *)
    c_user : option str;         (* check_digest(..., username) *)
    r_method : str;              (* REQUEST_METHOD *)
    r_path_info : str;           (* PATH_INFO *)
    r_query_string : str;        (* QUERY_STRING *)
    r_client : str;              (* str(req.user_agent) *)
    r_host : str;                (* SERVER_NAME *)
    r_time : Z                   (* time() in microseconds *)
  }.

  Definition req_path (e : env) : str := utf8_fix (r_path_info e).
  Definition req_query (e : env) : str := strip is_space (r_query_string e).
  Definition is_sess (e : env) : bool := ends_with (c_algorithm e) s_sess.

  (* the format call '{k1}:{k2}:...' over the kwargs dict: the text, or the first missing key *)
  Fixpoint fmt (keys : list str) (kw : dict) : str + str :=
    match keys with
    | [] => inl []
    | k :: ks =>
      match dget k kw with
      | None => inr k
      | Some v =>
        match ks with
        | [] => inl v
        | _ => match fmt ks kw with
               | inl t => inl (v ++ 58 :: t)
               | inr m => inr m
               end
        end
      end
    end.

  Inductive cr := CR (b : bool) | CRKeyError (k : str).

  Definition check_response (d : dict) (e : env) (password : str) : cr :=
    let kw0 := dset k_hash1 password d in
    match (if is_sess e then
             match fmt [k_hash1; k_nonce; k_cnonce] kw0 with
             | inl t => inl (dset k_hash1 (Hh t) kw0)
             | inr k => inr k
             end
           else inl kw0) with
    | inr k => CRKeyError k
    | inl kw1 =>
      let kw2 := dset k_method (r_method e) kw1 in
      match fmt [k_method; k_uri] kw2 with
      | inr k => CRKeyError k
      | inl t2 =>
        let kw3 := dset k_hash2 (Hh t2) kw2 in
        match fmt (if nonempty (c_qop e)
                   then [k_hash1; k_nonce; k_nc; k_cnonce; k_qop; k_hash2]
                   else [k_hash1; k_nonce; k_hash2]) kw3 with
        | inr k => CRKeyError k
        | inl t3 =>
          match dget k_response kw3 with
          | Some r => CR (lz_eqb (Hh t3) r)
          | None => CRKeyError k_response
          end
        end
      end
    end.

  (* uri.partition('?') and the reduction of the absolute-URI form *)
  Definition split_uri (uri : str) : str * str :=
    let (p, q) := partition_at 63 uri in
    (match after_sub s_scheme p with
     | Some rest => 47 :: snd (partition_at 47 rest)
     | None => p
     end, q).

  Definition lookup_password (e : env) (user : option str) : option str :=
    match user with
    | None => None
    | Some u =>
      match mget (c_realm e) (c_map e) with
      | None => None
      | Some users => dget u users
      end
    end.

  (* unquote(uri_path) != req.path or uri_query != req.query *)
  Definition uri_mismatch (d : dict) (e : env) : bool :=
    let pq := split_uri (dgetd k_uri d) in
    negb (lz_eqb (Unq (fst pq)) (req_path e)) ||
    negb (lz_eqb (snd pq) (req_query e)).

  Definition check_credentials (d : dict) (e : env) : bool :=
    if negb (opt_eqb (dget k_algorithm d) (c_algorithm e)) then false else
    if negb (opt_eqb (dget k_opaque d) (Ho (r_host e))) then false else
    if uri_mismatch d e then false else
    if nonempty (c_qop e) && negb (opt_eqb (dget k_qop d) (c_qop e))
    then false else
    if negb (opt_eqb (dget k_realm d) (c_realm e)) then false else
    if (match c_user e with
        | Some u => nonempty u && negb (opt_eqb (dget k_username d) u)
        | None => false
        end) then false else
    if negb (is_some (dget k_response d)) then false else
    match lookup_password e (dget k_username d) with
    | None => false
    | Some p =>
      if negb (nonempty p) then false else
      match check_response d e p with
      | CR b => b
      | CRKeyError _ => false          (* except KeyError *)
      end
    end.

  (* check_token(auth.get('nonce'), ...): a missing nonce (None) compares
     unequal with every token *)
  Definition check_nonce (d : dict) (e : env) : option bool :=
    match dget k_nonce d with
    | Some n =>
      check_token Ht n (c_secret e) (r_client e) (c_timeout e) (r_time e)
    | None =>
      option_map (fun _ => false)
        (check_token Ht [] (c_secret e) (r_client e) (c_timeout e) (r_time e))
    end.

  Inductive result := Run (user : str) | Deny401 (stale : bool)
                    | Crash (exn : string).

  (* the decorator: [hdr] is req.authorization when the header is present *)
  Definition gate (hdr : option dict) (e : env) : result :=
    match hdr with
    | None => Deny401 false
    | Some d =>
      match dget k_type d with
      | None => Crash "KeyError"
      | Some ty =>
        if negb (lz_eqb ty s_Digest) then Deny401 false else
        match check_nonce d e with
        | None => Crash "ZeroDivisionError"
        | Some false => Deny401 true
        | Some true =>
          if negb (check_credentials d e) then Deny401 false else
          match dget k_username d with
          | None => Crash "KeyError"
          | Some u => Run u
          end
        end
      end
    end.

  Definition gate_raw (raw : option str) (e : env) : result :=
    gate (option_map parse_authorization raw) e.

  (* ------------------------------------------------ RFC 7616, client side
     Written from RFC 7616 section 3.4, independently of check_response. *)
  Definition colon (a b : str) : str := a ++ 58 :: b.

  Definition rfc_A1 (user realm pw : str) : str :=
    Hh (colon user (colon realm pw)).

  Definition rfc_response (sess qop_on : bool)
             (ha1 nonce nc cnonce qop method uri : str) : str :=
    let ha1' := if sess then Hh (colon ha1 (colon nonce cnonce)) else ha1 in
    let ha2 := Hh (colon method uri) in
    if qop_on
    then Hh (colon ha1' (colon nonce (colon nc (colon cnonce (colon qop ha2)))))
    else Hh (colon ha1' (colon nonce ha2)).

  Definition rfc7616_fields (alg qop realm opaque user pw nonce nc cnonce
                             method uri : str) : dict :=
    let sess := ends_with alg s_sess in
    [ (k_type, s_Digest); (k_username, user); (k_realm, realm);
      (k_nonce, nonce); (k_uri, uri); (k_algorithm, alg);
      (k_response, rfc_response sess (nonempty qop) (rfc_A1 user realm pw)
                                nonce nc cnonce qop method uri);
      (k_opaque, opaque) ] ++
    (if nonempty qop then [ (k_qop, qop); (k_nc, nc); (k_cnonce, cnonce) ]
     else if sess then [ (k_cnonce, cnonce) ] else []).
End Digest.

(* --------------------------------------------------------- entry points
   The harness replaces every hash constructor by a fake whose hexdigest is
   tag + '<' + text + '>' (T: session.sha256, O: digest.sha256, M / S: the
   app's MD5 / SHA-256). *)
Definition fakeH (tag : Z) (x : str) : str := tag :: 60 :: x ++ [62].

Definition enc_result (r : result) : V :=
  match r with
  | Run u => VL [VB true; VS u; VZ 200; VB false]
  | Deny401 stale => VL [VB false; VN; VZ 401; VB stale]
  | Crash _ => VL [VB false; VN; VZ 500; VB false]
  end.

Definition mk_env := Build_env.

Definition run_gate (htag : Z) (e : env) (raw : option str) : V :=
  enc_result (gate_raw (fakeH 84) (fakeH htag) (fakeH 79) unquote raw e).

(* insertion-ordered view of a dict: keys in first-insertion order, values
   of the last assignment *)
Fixpoint dedup (seen : list str) (ks : list str) : list str :=
  match ks with
  | [] => []
  | k :: ks' => if existsb (lz_eqb k) seen then dedup seen ks'
                else k :: dedup (k :: seen) ks'
  end.
Definition enc_fields (d : dict) : V :=
  VL (map (fun k => VL [VS k; VS (dgetd k d)])
          (filter (fun k => negb (lz_eqb k k_type))
                  (dedup [] (map fst (rev d))))).
(* the type string is compared only when the scheme prefix is ASCII *)
Definition run_parse (raw : str) : V :=
  let d := parse_authorization unquote raw in
  VL [VS (dgetd k_type d); enc_fields d].
Definition run_parse_fields (raw : str) : V :=
  enc_fields (parse_authorization unquote raw).
Definition run_unquote (s : str) : V := VS (unquote s).

(* case-file compression only: a derived header as an edit of a base text *)
Definition splice (base : str) (i n : Z) (repl : str) : str :=
  firstn (Z.to_nat i) base ++ repl ++ skipn (Z.to_nat (i + n)) base.
