(* Model of poorwsgi/session.py get_token / check_token (C16).
   Time is an exact number of microseconds [t : Z]; [int(time()/T)*T] is the
   floor (valid for t >= 0, T > 0; the float rounding of time()/T is outside
   the model).  The hash is a parameter of the section; the token text is
   what the code formats with "%s%s%s".  A Python exception is the outcome
   [None] (the only one possible here is ZeroDivisionError).
   [timeout : option Z]: Python None / an int. *)
From Coq Require Import ZArith List Bool String.
Require Import PW.lib.Val PW.lib.Dec.
Import ListNotations.
Open Scope string_scope.
Open Scope list_scope.
Open Scope Z_scope.

Definition usec : Z := 1000000.

(* int(time() / timeout) * timeout ; None = ZeroDivisionError *)
Definition aligned (t T : Z) : option Z :=
  if T =? 0 then None else Some ((t / (T * usec)) * T).

(* Python: [if not timeout] *)
Definition has_timeout (timeout : option Z) : bool :=
  match timeout with None => false | Some T => negb (T =? 0) end.

Section Token.
  Variable H : list Z -> list Z.     (* sha256(text.encode()).hexdigest() *)

  (* text hashed by get_token(secret, client, timeout, expired) at time t *)
  Definition token_text (secret client : list Z) (timeout : option Z)
             (expired : Z) (t : Z) : option (list Z) :=
    if has_timeout timeout then
      match timeout with
      | Some T =>
          if expired =? 0 then
            match aligned t T with
            | Some now => Some (secret ++ dec (now + 2 * T) ++ client)
            | None => None
            end
          else Some (secret ++ dec expired ++ client)
      | None => Some (secret ++ client)
      end
    else Some (secret ++ client).

  Definition get_token secret client timeout expired t : option (list Z) :=
    option_map H (token_text secret client timeout expired t).

  Definition tok_eqb (token : list Z) (o : option (list Z)) : option bool :=
    option_map (lz_eqb token) o.

  Definition check_token (token secret client : list Z) (timeout : option Z)
             (t : Z) : option bool :=
    if has_timeout timeout then
      match timeout with
      | Some T =>
          match aligned t T with
          | None => None
          | Some now =>
              let expired := now + T in
              match tok_eqb token (get_token secret client timeout expired t) with
              | None => None
              | Some true => Some true
              | Some false =>
                  tok_eqb token (get_token secret client timeout (expired + T) t)
              end
          end
      | None => tok_eqb token (get_token secret client None 0 t)
      end
    else tok_eqb token (get_token secret client None 0 t).

  (* issue at t0 for (s,c), verify at t1 against (s',c') *)
  Definition verify s c s' c' timeout t0 t1 : option bool :=
    match get_token s c timeout 0 t0 with
    | None => None
    | Some tok => check_token tok s' c' timeout t1
    end.
End Token.

(* correspondence entry points: identity "hash" (the harness replaces sha256
   by a fake whose hexdigest is the text itself) *)
Definition idH (x : list Z) := x.
Definition enc_ol (o : option (list Z)) : V :=
  match o with Some l => VS l | None => VX "ZeroDivisionError" end.
Definition enc_ob (o : option bool) : V :=
  match o with Some b => VB b | None => VX "ZeroDivisionError" end.
Definition run_get (secret client : list Z) (timeout : option Z) (t : Z) : V :=
  enc_ol (get_token idH secret client timeout 0 t).
Definition run_verify (s c s' c' : list Z) (timeout : option Z) (t0 t1 : Z) : V :=
  enc_ob (verify idH s c s' c' timeout t0 t1).
