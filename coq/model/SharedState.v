(* Which code may write process-wide mutable objects of poorwsgi, and when
   (property C17: no request-time code writes or shares state that outlives
   the request).  The census itself is generated from the source on every
   run (gen/SharedGen.v by harness/py2v_shared.py); this file is the policy
   it is judged by. *)
From Coq Require Import List String Bool.
Import ListNotations.
Open Scope string_scope.

(* (function, object): the function runs only while the module is imported
   or while an application object is constructed, never for a request *)
Definition allowed_writes : list (string * string) :=
  [ (* import time: results.py fills the table of built-in pages once *)
    ("results.__fill_default_shandlers", "results.default_states");
    (* construction time: registry of application names (uniqueness check) *)
    ("wsgi.Application.__init__", "wsgi.Application.__instances") ].

Definition pair_eqb (a b : string * string) : bool :=
  String.eqb (fst a) (fst b) && String.eqb (snd a) (snd b).
Definition write_allowed (w : string * string * string) : bool :=
  existsb (pair_eqb (fst (fst w), snd (fst w))) allowed_writes.

(* no shared object may become reachable from an instance at all *)
Definition census_ok (writes escapes : list (string * string * string))
  : bool :=
  forallb write_allowed writes &&
  match escapes with [] => true | _ => false end.

Lemma census_ok_spec writes escapes :
  census_ok writes escapes = true ->
  (forall f o h, In (f, o, h) writes -> In (f, o) allowed_writes) /\
  escapes = [].
Proof.
  unfold census_ok. intros H. apply andb_true_iff in H. destruct H as [Hw He].
  split.
  - intros f o h Hin. rewrite forallb_forall in Hw.
    specialize (Hw _ Hin). unfold write_allowed in Hw. cbn [fst snd] in Hw.
    apply existsb_exists in Hw. destruct Hw as [[f' o'] [Hin' Heq]].
    unfold pair_eqb in Heq. cbn [fst snd] in Heq.
    apply andb_true_iff in Heq. destruct Heq as [Hf Ho].
    apply String.eqb_eq in Hf. apply String.eqb_eq in Ho. now subst.
  - destruct escapes; [reflexivity | discriminate].
Qed.
