(* Model of the Digest challenge issued by the built-in 401 page (C11):
     poorwsgi/results.py  unauthorized(req, realm=None, stale='', error=None)
   written after the Python, piece by piece in the order of the source.

   Python str = list Z (code points).  The hashes are Section variables, the
   same two the verification side (model/Digest.v) uses:
     Ht : sha256(text.encode()).hexdigest() of session.py (nonce, get_token),
     Ho : sha256(text.encode()).hexdigest() of results.py / digest.py (opaque).
   The outcome is the text of the WWW-Authenticate header ([None]: no header
   is set, the response carries the HTML page only) or a Python exception.
   The HTML content of the page is not part of this model (model/Pages.v). *)
From Coq Require Import ZArith List Bool String.
Require Import PW.lib.Val PW.lib.Dec PW.model.Token PW.model.Digest.
Import ListNotations.
Open Scope string_scope.
Open Scope list_scope.
Open Scope Z_scope.

(* application configuration read by unauthorized *)
Record cfg := {
  a_type : option str;         (* app.auth_type; None = Python None *)
  a_algorithm : str;           (* app.auth_algorithm *)
  a_qop : option str;          (* app.auth_qop; None = Python None *)
  a_timeout : option Z         (* app.auth_timeout *)
}.
(* the request, and the clock *)
Record renv := {
  q_secret : str;              (* str(req.secret_key) *)
  q_client : str;              (* str(req.user_agent) *)
  q_host : str;                (* req.server_hostname *)
  q_time : Z                   (* time() in microseconds *)
}.

Inductive outcome (A : Type) :=
  | Raises (exn : string) (msg : str)
  | Returns (a : A).
Arguments Raises {A} exn msg. Arguments Returns {A} a.

Definition header_text := option str.

Definition msg_realm : str := s2l "Digest: realm value must be set".
Definition s_realm_open : str := s2l "Digest realm=""".
Definition s_qop_open : str := s2l "qop=""".
Definition s_qop_close : str := s2l """,".
Definition s_alg_open : str := s2l """,".         (* closes realm *)
Definition s_algorithm : str := s2l "algorithm=""".
Definition s_nonce : str := s2l """,nonce=""".
Definition s_opaque : str := s2l """,opaque=""".
Definition s_close : str := s2l """".
Definition s_stale : str := s2l ",stale=true".

(* qop = req.app.auth_qop or '' ; if qop: qop = 'qop="%s",' % req.app.auth_qop *)
Definition qop_piece (c : cfg) : str :=
  match a_qop c with
  | Some q => if nonempty q then s_qop_open ++ q ++ s_qop_close else []
  | None => []
  end.

Section Challenge.
  Variable Ht : str -> str.
  Variable Ho : str -> str.

  (* 'Digest realm="{realm}",{qop}algorithm="{algorithm}",nonce="{nonce}",
     opaque="{opaque}"' *)
  Definition header_of (c : cfg) (realm nonce opaque : str) : str :=
    s_realm_open ++ realm ++ s_alg_open ++ qop_piece c ++
    s_algorithm ++ a_algorithm c ++ s_nonce ++ nonce ++
    s_opaque ++ opaque ++ s_close.

  Definition issued_nonce (c : cfg) (r : renv) : option str :=
    get_token Ht (q_secret r) (q_client r) (a_timeout c) 0 (q_time r).
  Definition issued_opaque (r : renv) : str := Ho (q_host r).

  Definition challenge (c : cfg) (r : renv) (realm : option str)
             (stale : bool) : outcome header_text :=
    if opt_eqb (a_type c) s_Digest then
      if negb (match realm with Some x => nonempty x | None => false end)
      then Raises "RuntimeError" msg_realm
      else
        match issued_nonce c r with
        | None => Raises "ZeroDivisionError" []
        | Some nonce =>
          let header := header_of c (match realm with Some x => x | None => [] end)
                                  nonce (issued_opaque r) in
          Returns (Some (if stale then header ++ s_stale else header))
        end
    else Returns None.
End Challenge.
