(* Model for C10: query string / urlencoded form / JSON containers / body read
   plan of poorwsgi.request.Request.__init__.

   Python str = list Z (code points), bytes = list Z (0..255).

   Modelled code (PoorWSGI):
     request.py   SimpleRequest.query (QUERY_STRING.strip()), Args.__init__,
                  EmptyForm, JsonDict (= FieldStorageInterface on a dict),
                  JsonList, parse_json_request, Request.__init__ (auto_data
                  buffering, auto_json / auto_form branches, Request.read,
                  Request.input)
     fieldstorage.py  FieldStorageInterface.getvalue/getfirst/getlist,
                  FieldStorage.__contains__/__getitem__/value/getvalue/
                  getfirst/getlist, FieldStorageParser.parse/read_urlencoded/
                  read_single/read_binary (which reads are issued)
   Modelled code (CPython 3.12 urllib.parse, re-implemented; tied to the real
   functions by the correspondence run):
     parse_qsl (separator '&', non-strict, keep_blank_values), parse_qs,
     unquote (str version: maximal ASCII runs are percent-decoded and decoded
     as UTF-8 with errors='replace', other characters kept), _unquote_impl
     (written as a left-to-right scan, equivalent to the split('%') loop),
     quote_plus / urlencode (the encoder specification),
     bytes.decode('utf-8','replace') and str.encode('utf-8').
   Not modelled: strict_parsing=1, max_num_fields, multipart parsing (only
   the class of reads it issues), json.loads (a Section function). *)
From Coq Require Import ZArith List Bool String.
Require Import PW.lib.Val.
Import ListNotations.
Open Scope string_scope.
Open Scope list_scope.
Open Scope Z_scope.

Definition is_nil {A : Type} (l : list A) : bool :=
  match l with [] => true | _ => false end.

(* ------------------------------------------------------------------ UTF-8 *)
Definition valid_scalar (c : Z) : Prop :=
  0 <= c < 55296 \/ 57344 <= c <= 1114111.
Definition valid_scalarb (c : Z) : bool :=
  ((0 <=? c) && (c <? 55296)) || ((57344 <=? c) && (c <=? 1114111)).
Definition valid_scalar_text (s : list Z) : Prop := Forall valid_scalar s.

(* str.encode('utf-8') of one code point (total; surrogates are excluded by
   [valid_scalar] / reported by [run_quote]) *)
Definition utf8_enc_cp (c : Z) : list Z :=
  if c <? 128 then [c]
  else if c <? 2048 then [192 + c / 64; 128 + c mod 64]
  else if c <? 65536 then
    [224 + c / 4096; 128 + (c / 64) mod 64; 128 + c mod 64]
  else [240 + c / 262144; 128 + (c / 4096) mod 64; 128 + (c / 64) mod 64;
        128 + c mod 64].
Definition utf8_enc (s : list Z) : list Z := flat_map utf8_enc_cp s.

Definition is_cont (b : Z) : bool := (128 <=? b) && (b <? 192).
(* second byte of a 3-byte form: E0 needs A0..BF, ED needs 80..9F *)
Definition ok3 (b0 b1 : Z) : bool :=
  is_cont b1 && negb ((b0 =? 224) && (b1 <? 160))
             && negb ((b0 =? 237) && (160 <=? b1)).
(* second byte of a 4-byte form: F0 needs 90..BF, F4 needs 80..8F *)
Definition ok4 (b0 b1 : Z) : bool :=
  is_cont b1 && negb ((b0 =? 240) && (b1 <? 144))
             && negb ((b0 =? 244) && (144 <=? b1)).
Definition REPL : Z := 65533.

(* bytes.decode('utf-8', 'replace'): one U+FFFD per maximal ill-formed
   subpart, a truncated but so-far-valid sequence at the end gives one *)
Fixpoint utf8_dec (bs : list Z) : list Z :=
  match bs with
  | [] => []
  | b0 :: r0 =>
    if b0 <? 128 then b0 :: utf8_dec r0
    else if b0 <? 194 then REPL :: utf8_dec r0
    else if b0 <? 224 then
      match r0 with
      | [] => [REPL]
      | b1 :: r1 =>
        if is_cont b1 then ((b0 - 192) * 64 + (b1 - 128)) :: utf8_dec r1
        else REPL :: utf8_dec r0
      end
    else if b0 <? 240 then
      match r0 with
      | [] => [REPL]
      | b1 :: r1 =>
        if ok3 b0 b1 then
          match r1 with
          | [] => [REPL]
          | b2 :: r2 =>
            if is_cont b2 then
              ((b0 - 224) * 4096 + (b1 - 128) * 64 + (b2 - 128)) :: utf8_dec r2
            else REPL :: utf8_dec r1
          end
        else REPL :: utf8_dec r0
      end
    else if b0 <? 245 then
      match r0 with
      | [] => [REPL]
      | b1 :: r1 =>
        if ok4 b0 b1 then
          match r1 with
          | [] => [REPL]
          | b2 :: r2 =>
            if is_cont b2 then
              match r2 with
              | [] => [REPL]
              | b3 :: r3 =>
                if is_cont b3 then
                  ((b0 - 240) * 262144 + (b1 - 128) * 4096 + (b2 - 128) * 64
                   + (b3 - 128)) :: utf8_dec r3
                else REPL :: utf8_dec r2
              end
            else REPL :: utf8_dec r1
          end
        else REPL :: utf8_dec r0
      end
    else REPL :: utf8_dec r0
  end.

(* ------------------------------------------------- percent / plus codec *)
Definition hexval (c : Z) : option Z :=
  if (48 <=? c) && (c <=? 57) then Some (c - 48)
  else if (65 <=? c) && (c <=? 70) then Some (c - 55)
  else if (97 <=? c) && (c <=? 102) then Some (c - 87)
  else None.
Definition hexdig (n : Z) : Z := if n <? 10 then 48 + n else 55 + n.

(* urllib.parse._ALWAYS_SAFE : A-Z a-z 0-9 _ . - ~ *)
Definition unreserved (b : Z) : bool :=
  ((48 <=? b) && (b <=? 57)) || ((65 <=? b) && (b <=? 90)) ||
  ((97 <=? b) && (b <=? 122)) ||
  (b =? 45) || (b =? 46) || (b =? 95) || (b =? 126).

(* quote_plus on one byte *)
Definition quote_byte (b : Z) : list Z :=
  if unreserved b then [b]
  else if b =? 32 then [43]
  else [37; hexdig (b / 16); hexdig (b mod 16)].
Definition quote_plus (s : list Z) : list Z := flat_map quote_byte (utf8_enc s).

(* urllib.parse.urlencode(pairs): '&'.join(quote_plus(k)+'='+quote_plus(v)) *)
Fixpoint encode (ps : list (list Z * list Z)) : list Z :=
  match ps with
  | [] => []
  | (k, v) :: rest =>
    match rest with
    | [] => quote_plus k ++ 61 :: quote_plus v
    | _ => quote_plus k ++ 61 :: quote_plus v ++ 38 :: encode rest
    end
  end.

(* _unquote_impl on ASCII text: %XX with two hex digits is one byte, any
   other '%' stays literal *)
Fixpoint unq_bytes (s : list Z) : list Z :=
  match s with
  | [] => []
  | c :: r =>
    if c =? 37 then
      match r with
      | h :: l :: r2 =>
        match hexval h, hexval l with
        | Some a, Some b => (16 * a + b) :: unq_bytes r2
        | _, _ => 37 :: unq_bytes r
        end
      | _ => 37 :: unq_bytes r
      end
    else c :: unq_bytes r
  end.

(* one maximal ASCII run (collected reversed in acc) -> text *)
Definition flush_run (acc : list Z) : list Z := utf8_dec (unq_bytes (rev acc)).

(* _generate_unquoted_parts: ASCII runs are unquoted+decoded, the rest kept *)
Fixpoint unq_runs (s acc : list Z) : list Z :=
  match s with
  | [] => flush_run acc
  | c :: r =>
    if c <? 128 then unq_runs r (c :: acc)
    else flush_run acc ++ c :: unq_runs r []
  end.

Definition has_pct (s : list Z) : bool := existsb (Z.eqb 37) s.

(* urllib.parse.unquote(str) *)
Definition unquote (s : list Z) : list Z :=
  if has_pct s then unq_runs s [] else s.

(* str.replace('+', ' ') *)
Definition plus2sp (s : list Z) : list Z :=
  map (fun c => if c =? 43 then 32 else c) s.

(* str.split(sep) for a one-character separator: never empty *)
Fixpoint split_on (sep : Z) (s : list Z) : list (list Z) :=
  match s with
  | [] => [[]]
  | c :: r =>
    if c =? sep then [] :: split_on sep r
    else match split_on sep r with
         | p :: ps => (c :: p) :: ps
         | [] => [[c]]
         end
  end.

(* str.split(sep, 1): (head, Some tail) or (whole, None) *)
Fixpoint split1 (sep : Z) (s : list Z) : list Z * option (list Z) :=
  match s with
  | [] => ([], None)
  | c :: r =>
    if c =? sep then ([], Some r)
    else let (a, b) := split1 sep r in (c :: a, b)
  end.

(* body of the loop of parse_qsl for one name_value piece, strict_parsing=0 *)
Definition parse_piece (keep : bool) (nv : list Z) : list (list Z * list Z) :=
  if is_nil nv then []                         (* not name_value: continue *)
  else
    let (n, ov) := split1 61 nv in
    match (match ov with
           | Some v => Some v
           | None => if keep then Some [] else None   (* len(nv) != 2 *)
           end) with
    | None => []
    | Some v =>
      if negb (is_nil v) || keep then
        [(unquote (plus2sp n), unquote (plus2sp v))]
      else []
    end.

Definition parse_qsl (keep : bool) (qs : list Z) : list (list Z * list Z) :=
  if is_nil qs then [] else flat_map (parse_piece keep) (split_on 38 qs).

Definition nonblank (p : list Z * list Z) : bool := negb (is_nil (snd p)).
(* what must arrive: blanks kept or dropped *)
Definition sel (keep : bool) (ps : list (list Z * list Z)) :=
  if keep then ps else filter nonblank ps.

(* ---- any legal encoding, as a relation (the encoder is the client's) ----
   a byte may be sent literally when it is visible ASCII other than % & + =,
   a space as '+', and any byte as %XX with hex digits of either case *)
Definition lit_ok (b : Z) : bool :=
  (33 <=? b) && (b <? 127) && negb (b =? 37) && negb (b =? 38)
  && negb (b =? 43) && negb (b =? 61).

(* enc_of text bytes *)
Inductive enc_of : list Z -> list Z -> Prop :=
  | E_nil : enc_of [] []
  | E_lit b t bs : lit_ok b = true -> enc_of t bs -> enc_of (b :: t) (b :: bs)
  | E_plus t bs : enc_of t bs -> enc_of (43 :: t) (32 :: bs)
  | E_pct h l b t bs :
      hexval h = Some (b / 16) -> hexval l = Some (b mod 16) ->
      enc_of t bs -> enc_of (37 :: h :: l :: t) (b :: bs).

Definition valid_pair (p : list Z * list Z) : Prop :=
  valid_scalar_text (fst p) /\ valid_scalar_text (snd p).
Definition valid_pairs (ps : list (list Z * list Z)) : Prop :=
  Forall valid_pair ps.

(* qs_of query pairs: key=value pieces joined by '&'; empty pieces and a
   trailing '&' are allowed *)
Inductive qs_of : list Z -> list (list Z * list Z) -> Prop :=
  | Q_nil : qs_of [] []
  | Q_one ek ev k v :
      enc_of ek (utf8_enc k) -> enc_of ev (utf8_enc v) ->
      qs_of (ek ++ 61 :: ev) [(k, v)]
  | Q_skip q ps : qs_of q ps -> qs_of (38 :: q) ps
  | Q_cons ek ev k v q ps :
      enc_of ek (utf8_enc k) -> enc_of ev (utf8_enc v) -> qs_of q ps ->
      qs_of (ek ++ 61 :: ev ++ 38 :: q) ((k, v) :: ps).

(* ------------------------------------------------------- parse_qs / Args *)
Definition K := list Z.

Fixpoint dict_add (d : list (K * list K)) (k v : K) : list (K * list K) :=
  match d with
  | [] => [(k, [v])]
  | (k', vs) :: d' =>
    if lz_eqb k' k then (k', vs ++ [v]) :: d'
    else (k', vs) :: dict_add d' k v
  end.

Definition group (ps : list (K * K)) : list (K * list K) :=
  fold_left (fun d kv => dict_add d (fst kv) (snd kv)) ps [].

Definition parse_qs (keep : bool) (qs : list Z) := group (parse_qsl keep qs).

Inductive aval := AS (s : K) | AL (l : list K).

(* val[0] if len(val) < 2 else val  (lists of parse_qs are never empty) *)
Definition collapse1 (vs : list K) : aval :=
  match vs with
  | [v] => AS v
  | _ => AL vs
  end.

Definition args_dict (ps : list (K * K)) : list (K * aval) :=
  map (fun kv => (fst kv, collapse1 (snd kv))) (group ps).

(* keys in order of first occurrence (dict insertion order) *)
Fixpoint first_occ (seen ks : list K) : list K :=
  match ks with
  | [] => []
  | k :: r =>
    if existsb (fun k' => lz_eqb k' k) seen then first_occ seen r
    else k :: first_occ (seen ++ [k]) r
  end.

(* str.isspace() code points, for str.strip() *)
Definition is_space (c : Z) : bool :=
  ((9 <=? c) && (c <=? 13)) || ((28 <=? c) && (c <=? 32)) ||
  (c =? 133) || (c =? 160) || (c =? 5760) ||
  ((8192 <=? c) && (c <=? 8202)) || (c =? 8232) || (c =? 8233) ||
  (c =? 8239) || (c =? 8287) || (c =? 12288).

Fixpoint lstrip (s : list Z) : list Z :=
  match s with
  | [] => []
  | c :: r => if is_space c then lstrip r else s
  end.
Definition strip (s : list Z) : list Z := rev (lstrip (rev (lstrip s))).

(* Args(req, keep): query = QUERY_STRING.strip();
   parse_qs(query, keep, 0) if query else {} *)
Definition args_of (keep : bool) (query_string : list Z) : list (K * aval) :=
  let q := strip query_string in
  if is_nil q then [] else args_dict (parse_qsl keep q).

Fixpoint lookup {T : Type} (k : K) (d : list (K * T)) : option T :=
  match d with
  | [] => None
  | (k', x) :: d' => if lz_eqb k' k then Some x else lookup k d'
  end.

(* all values sent for key k, in order *)
Definition vals (k : K) (ps : list (K * K)) : list K :=
  map snd (filter (fun p => lz_eqb (fst p) k) ps).

(* ------------------------------------------------------------ accessors *)
(* results of the accessor trio on text containers (default None, func id) *)
Inductive tres :=
  | TNone
  | TStr (s : K)
  | TList (l : list (option K))      (* None: an element that is None *)
  | TRaise (e : string).

(* FieldStorageInterface on a dict (Args) *)
Definition a_getvalue (d : list (K * aval)) (k : K) : tres :=
  match lookup k d with
  | None => TNone
  | Some (AS s) => TStr s
  | Some (AL l) => TList (map Some l)
  end.
Definition a_getfirst (d : list (K * aval)) (k : K) : tres :=
  match lookup k d with
  | None => TNone
  | Some (AS s) => TStr s
  | Some (AL []) => TNone            (* func(value[0]) if value else default *)
  | Some (AL (x :: _)) => TStr x
  end.
Definition a_getlist (d : list (K * aval)) (k : K) : tres :=
  match lookup k d with
  | None => TList []
  | Some (AS s) => TList [Some s]
  | Some (AL l) => TList (map Some l)
  end.

(* EmptyForm *)
Definition e_getvalue (k : K) : tres := TNone.
Definition e_getfirst (k : K) : tres := TNone.
Definition e_getlist (k : K) : tres := TList [].

(* FieldStorage: root.list = [FieldStorage(name, value), ...] *)
(* FieldStorage.value of a leaf made by read_urlencoded: [if self._value is
   not None: return self._value]; the value is always a str there, so a kept
   blank value is ''.  (option: what .value may answer in general) *)
Definition fval (v : K) : option K := Some v.
Definition f_found (fs : list (K * K)) (k : K) : list (K * K) :=
  filter (fun f => lz_eqb (fst f) k) fs.
Definition f_contains (fs : list (K * K)) (k : K) : bool :=
  if is_nil fs then false else existsb (fun f => lz_eqb (fst f) k) fs.
Inductive fitem := FOne (f : K * K) | FMany (l : list (K * K)).
(* None = KeyError *)
Definition f_getitem (fs : list (K * K)) (k : K) : option fitem :=
  if is_nil fs then None
  else match f_found fs k with
       | [] => None
       | [f] => Some (FOne f)
       | l => Some (FMany l)
       end.
Definition of_opt (o : option K) : tres :=
  match o with Some s => TStr s | None => TNone end.
Definition f_getvalue (fs : list (K * K)) (k : K) : tres :=
  if f_contains fs k then
    match f_getitem fs k with
    | None => TRaise "KeyError"
    | Some (FOne f) => of_opt (fval (snd f))
    | Some (FMany l) => TList (map (fun f => fval (snd f)) l)
    end
  else TNone.
Definition f_getfirst (fs : list (K * K)) (k : K) : tres :=
  if f_contains fs k then
    match f_getitem fs k with
    | None => TRaise "KeyError"
    | Some (FOne f) => of_opt (fval (snd f))
    | Some (FMany []) => TRaise "IndexError"
    | Some (FMany (f :: _)) => of_opt (fval (snd f))
    end
  else TNone.
(* value = self.getvalue(key); list -> value; None -> []; else [value] *)
Definition f_getlist (fs : list (K * K)) (k : K) : tres :=
  match f_getvalue fs k with
  | TList l => TList l
  | TNone => TList []
  | TStr s => TList [Some s]
  | TRaise e => TRaise e
  end.

(* read_urlencoded: qs = input.read(length).decode('utf-8','replace');
   parse_qsl(qs, keep, 0) -> fields *)
Definition form_fields (keep : bool) (body : list Z) : list (K * K) :=
  parse_qsl keep (utf8_dec body).

(* ----------------------------------------------------------------- JSON *)
Inductive J :=
  | JNull
  | JBool (b : bool)
  | JInt (z : Z)
  | JFlt (repr : list Z)          (* float, identified by its repr *)
  | JStr (s : list Z)
  | JArr (l : list J)
  | JObj (l : list (K * J)).      (* a dict: keys unique *)

Inductive jres := JRNone | JRVal (j : J) | JRRaise (e : string).

(* JsonDict = dict + FieldStorageInterface *)
Definition jd_getvalue (d : list (K * J)) (k : K) : jres :=
  match lookup k d with None => JRNone | Some j => JRVal j end.
Definition jd_getfirst (d : list (K * J)) (k : K) : jres :=
  match lookup k d with
  | None => JRNone
  | Some (JArr []) => JRNone      (* func(value[0]) if value else default *)
  | Some (JArr (x :: _)) => JRVal x
  | Some j => JRVal j
  end.
Definition jd_getlist (d : list (K * J)) (k : K) : jres :=
  match lookup k d with
  | None => JRVal (JArr [])
  | Some (JArr l) => JRVal (JArr l)
  | Some j => JRVal (JArr [j])
  end.

(* JsonList (key ignored) *)
Definition jl_getvalue (l : list J) : jres :=
  match l with [] => JRNone | x :: _ => JRVal x end.
Definition jl_getfirst (l : list J) : jres := jl_getvalue l.
Definition jl_getlist (l : list J) : jres := JRVal (JArr l).

(* parse_json_request(raw, charset): any failure of decode or loads is
   HTTPException(400); dict -> JsonDict, list -> JsonList, others as is. *)
Inductive json_out := J400 | JOk (j : J).
Section Json.
  Variable decode : list Z -> list Z -> option (list Z). (* charset raw *)
  Variable loads : list Z -> option J.
  Definition parse_json_request (raw charset : list Z) : json_out :=
    match decode charset raw with
    | None => J400
    | Some text => match loads text with None => J400 | Some j => JOk j end
    end.
End Json.

(* ------------------------------------------------------------ body plan *)
(* which FieldStorageParser branch the content type selects *)
Inductive pkind := KUrlenc | KMulti (* multipart/ with a valid boundary *)
                 | KSingle.

Record cfg := {
  auto_data : bool;
  data_size : Z;
  clen : Z;              (* int(Content-Length or -1) *)
  http09 : bool;         (* SERVER_PROTOCOL == "HTTP/0.9" *)
  in_json : bool;        (* mime_type in app.json_mime_types *)
  in_form : bool;        (* mime_type in app.form_mime_types *)
  kind : pkind;
  auto_json : bool;
  auto_form : bool;
  cached_size : Z
}.

(* one request made on wsgi.input *)
Inductive rd :=
  | RRead (n : Z)        (* read(n); n < 0 reads to the end of the stream *)
  | RLines               (* readline()/readline(65536) calls of the form
                            parser made directly on wsgi.input; their number
                            depends on the data; not limited by the length *)
  | RCached (todo : Z).  (* the form parser runs on CachedInput(wsgi.input,
                            todo, cached_size): read(n) calls with
                            n <= remaining todo (C09) *)

(* 0 <= content_length <= data_size with auto_data *)
Definition buffered (c : cfg) : bool :=
  auto_data c && (0 <=? clen c) && (clen c <=? data_size c).
Definition is_body_request (c : cfg) : bool := 0 <? clen c.
Definition body_expected (c : cfg) : bool := is_body_request c || http09 c.
Definition json_branch (c : cfg) : bool :=
  auto_json c && body_expected c && in_json c.
Definition form_branch (c : cfg) : bool :=
  negb (json_branch c) && auto_form c && body_expected c && in_form c.
(* Request.input: CachedInput unless cached_size is falsy *)
Definition cached (c : cfg) : bool := negb (cached_size c =? 0).

Definition BUFSIZE : Z := 8192.
(* read_single -> read_binary: [while todo > 0: data = read(min(todo,
   BUFSIZE)); ...; file.write(data)].  For a part without filename
   make_file() is a text-mode TemporaryFile, so the first write of bytes
   raises TypeError (the request is answered 500): exactly one read is
   issued for a non-empty body. *)
Definition single_reads (todo : Z) : list rd :=
  if 0 <? todo then [RRead (Z.min todo BUFSIZE)] else [].

Definition line_reads (c : cfg) : list rd :=
  if cached c then [RCached (clen c)] else [RLines].

(* reads of FieldStorageParser.parse on Request.input (not buffered) *)
Definition form_reads (c : cfg) : list rd :=
  match kind c with
  | KUrlenc => [RRead (clen c)]              (* input.read(self.length) *)
  | KMulti => line_reads c
  | KSingle =>
    if 0 <=? clen c then single_reads (clen c)   (* read_binary *)
    else line_reads c                            (* read_lines_to_eof *)
  end.

(* all requests on wsgi.input made by Request.__init__; once the body is
   buffered into a BytesIO the stream is not touched again *)
Definition body_plan (c : cfg) : list rd :=
  if buffered c then [RRead (clen c)]
  else if json_branch c then [RRead (clen c)]      (* Request.read() *)
  else if form_branch c then form_reads c
  else [].

(* upper bound on the bytes a request can take; None = unbounded *)
Definition rd_cost (r : rd) : option Z :=
  match r with
  | RRead n => if n <? 0 then None else Some n
  | RLines => None
  | RCached t => if t <? 0 then None else Some t
  end.
Fixpoint plan_cost (l : list rd) : option Z :=
  match l with
  | [] => Some 0
  | r :: l' =>
    match rd_cost r, plan_cost l' with
    | Some a, Some b => Some (a + b)
    | _, _ => None
    end
  end.

(* the form parser reads lines from the raw stream *)
Definition raw_lines (c : cfg) : bool :=
  negb (buffered c) && form_branch c && negb (cached c) &&
  match kind c with
  | KMulti => true
  | KSingle => clen c <? 0
  | KUrlenc => false
  end.

(* --------------------------------------------- correspondence entry points *)
Definition enc_okz (o : option K) : V :=
  match o with Some s => VS s | None => VN end.
Definition enc_tres (r : tres) : V :=
  match r with
  | TNone => VN
  | TStr s => VS s
  | TList l => VL (map enc_okz l)
  | TRaise e => VX e
  end.
Definition enc_aval (a : aval) : V :=
  match a with AS s => VS s | AL l => VL (map VS l) end.
Definition enc_args (d : list (K * aval)) : V :=
  VL (map (fun kv => VL [VS (fst kv); enc_aval (snd kv)]) d).
Definition enc_pairs (ps : list (K * K)) : V :=
  VL (map (fun kv => VL [VS (fst kv); VS (snd kv)]) ps).

(* req.args as dict, then (getvalue, getfirst, getlist) for every key *)
Definition run_query (keep : bool) (qs : list Z) (keys : list K) : V :=
  let d := args_of keep qs in
  VL [enc_args d;
      VL (map (fun k => VL [enc_tres (a_getvalue d k);
                            enc_tres (a_getfirst d k);
                            enc_tres (a_getlist d k)]) keys)].

(* [(f.name, f.value) for f in req.form.list], then the trio per key *)
Definition run_form (keep : bool) (body : list Z) (keys : list K) : V :=
  let fs := form_fields keep body in
  VL [VL (map (fun f => VL [VS (fst f); enc_okz (fval (snd f))]) fs);
      VL (map (fun k => VL [enc_tres (f_getvalue fs k);
                            enc_tres (f_getfirst fs k);
                            enc_tres (f_getlist fs k)]) keys)].

Definition run_empty (k : K) : V :=
  VL [enc_tres (e_getvalue k); enc_tres (e_getfirst k); enc_tres (e_getlist k)].

Definition run_qsl (keep : bool) (qs : list Z) : V :=
  enc_pairs (parse_qsl keep qs).
Definition run_quote (s : list Z) : V :=
  if forallb valid_scalarb s then VS (quote_plus s)
  else VX "UnicodeEncodeError".
Definition run_encode (ps : list (K * K)) : V :=
  if forallb (fun p => forallb valid_scalarb (fst p)
                       && forallb valid_scalarb (snd p)) ps
  then VS (encode ps) else VX "UnicodeEncodeError".
Definition run_utf8_dec (bs : list Z) : V := VS (utf8_dec bs).

(* JSON values: dicts are tagged so that {"a":1} and [["a",1]] differ *)
Fixpoint enc_j (j : J) : V :=
  match j with
  | JNull => VN
  | JBool b => VB b
  | JInt z => VZ z
  | JFlt r => VL [VX "float"; VS r]
  | JStr s => VS s
  | JArr l => VL (VX "list" :: map enc_j l)
  | JObj l => VL (VX "dict" :: map (fun kv => VL [VS (fst kv); enc_j (snd kv)]) l)
  end.
Definition enc_jres (r : jres) : V :=
  match r with
  | JRNone => VX "default"
  | JRVal j => enc_j j
  | JRRaise e => VX e
  end.
(* the trio on req.json when it is a JsonDict / JsonList *)
Definition run_json (j : J) (k : K) : V :=
  match j with
  | JObj d => VL [enc_jres (jd_getvalue d k); enc_jres (jd_getfirst d k);
                  enc_jres (jd_getlist d k)]
  | JArr l => VL [enc_jres (jl_getvalue l); enc_jres (jl_getfirst l);
                  enc_jres (jl_getlist l)]
  | _ => VX "scalar"
  end.

Definition enc_rd (r : rd) : V :=
  match r with
  | RRead n => VZ n
  | RLines => VX "lines"
  | RCached t => VL [VX "cached"; VZ t]
  end.
Definition mk_kind (n : Z) : pkind :=
  if n =? 0 then KUrlenc else if n =? 1 then KMulti else KSingle.
Definition run_plan (adata : bool) (dsize cl : Z) (h09 injs infm : bool)
           (kd : Z) (ajson aform : bool) (csize : Z) : V :=
  VL (map enc_rd (body_plan
    {| auto_data := adata; data_size := dsize; clen := cl; http09 := h09;
       in_json := injs; in_form := infm; kind := mk_kind kd;
       auto_json := ajson; auto_form := aform; cached_size := csize |})).
