(* C15: built-in HTML pages of poorwsgi/results.py.

   Hand-written part:
     - [html_escape]  : results.py html_escape over code points, table
                        [escape_table] = HTML_ESCAPE_TABLE (tied at run time and
                        by the generated lemma [escape_table_tie]);
     - [page] (PageIR): what the translator harness/py2pages.py extracts from
                        the nine page generators (gen/PagesGen.v, regenerated
                        from the source on every run);
     - [render]       : the text of a page for a valuation [env] of its holes;
     - [tok]          : the part of HTML tokenisation that decides where
                        elements, attributes and attribute values begin and
                        end;
     - [guarded]      : the syntactic discipline checked on every generated
                        page.
   str = list Z (code points). *)
From Coq Require Import ZArith List Bool.
Require Import PW.lib.Val.
Import ListNotations.
Open Scope Z_scope.

(* ------------------------------------------------------------ html_escape *)
(* HTML_ESCAPE_TABLE of results.py: amp, quot, apos, gt, lt *)
Definition escape_table : list (Z * list Z) :=
  [ (38, [38;97;109;112;59]);          (* amp  *)
    (34, [38;113;117;111;116;59]);     (* quot *)
    (39, [38;97;112;111;115;59]);      (* apos *)
    (62, [38;103;116;59]);             (* gt   *)
    (60, [38;108;116;59]) ].           (* lt   *)

(* dict.get(c, c) *)
Fixpoint table_get (t : list (Z * list Z)) (c : Z) : list Z :=
  match t with
  | [] => [c]
  | (k, v) :: t' => if c =? k then v else table_get t' c
  end.

Definition esc1 (c : Z) : list Z := table_get escape_table c.

(* join of HTML_ESCAPE_TABLE.get(c, c) for c in text *)
Fixpoint html_escape (s : list Z) : list Z :=
  match s with
  | [] => []
  | c :: s' => esc1 c ++ html_escape s'
  end.

(* ------------------------------------------------------------------ PageIR *)
Inductive cls := Trusted | TokenChars | Tainted.

(* syntactic context of a hole as recorded by the translator *)
Inductive ctx := CText | CRcdata | CAttrDQ | COther.

Inductive page :=
  | Lit (s : list Z)                       (* literal text of the source *)
  | Hole (c : cls) (esc : bool) (x : ctx)  (* interpolated expression *)
  | Cat (p q : page)
  | Cond (k : Z) (a b : page)              (* if/else; k names the test, 0 = req.debug *)
  | Loop (sep : list Z) (body : page).     (* sep.join(body for row in rows) *)
Notation IfDebug := (Cond 0).

(* valuation of the holes of a page, shaped like the page:
   Hole -> EVal v; Cat p q -> EPair ep eq; Cond -> EBr taken e;
   Loop -> EPair row1 (EPair row2 ... EUnit) *)
Inductive env :=
  | EUnit
  | EVal (v : list Z)
  | EPair (a b : env)
  | EBr (b : bool) (e : env).

Definition val_of (e : env) : list Z := match e with EVal v => v | _ => [] end.
Definition efst (e : env) : env := match e with EPair a _ => a | _ => EUnit end.
Definition esnd (e : env) : env := match e with EPair _ b => b | _ => EUnit end.
Definition ebr (e : env) : bool := match e with EBr b _ => b | _ => false end.
Definition esub (e : env) : env := match e with EBr _ x => x | _ => EUnit end.

Fixpoint render_rows (f : env -> list Z) (sep : list Z) (e : env) : list Z :=
  match e with
  | EPair r rest =>
      f r ++ (match rest with EPair _ _ => sep | _ => [] end)
          ++ render_rows f sep rest
  | _ => []
  end.

Fixpoint render (p : page) (e : env) {struct p} : list Z :=
  match p with
  | Lit s => s
  | Hole _ esc _ => if esc then html_escape (val_of e) else val_of e
  | Cat p q => render p (efst e) ++ render q (esnd e)
  | Cond _ a b => if ebr e then render a (esub e) else render b (esub e)
  | Loop sep body => render_rows (render body) sep e
  end.

(* --------------------------------------------------------------- tokenizer *)
Inductive event :=
  | ElemStart            (* '<' + letter : a start tag begins *)
  | ElemEnd              (* '</' + letter : an end tag begins *)
  | NameCh (c : Z)       (* one (lower-cased) character of the tag name *)
  | AttrStart            (* an attribute name begins *)
  | AttrCh (c : Z)       (* one (lower-cased) character of the attribute name *)
  | ValStart             (* an attribute value begins *)
  | ValEnd               (* ... and ends *)
  | TagClose.            (* '>' of a tag *)

(* cl = this is an end tag; nm = lower-cased tag name (decides RCDATA) *)
Inductive state :=
  | Text
  | RCDATA (el : list Z)          (* inside <title>/<textarea>/<style>/<script> *)
  | RcLt (el : list Z)            (* RCDATA, after '<' *)
  | RcEnd (el m : list Z)         (* RCDATA, after '</' and the letters m *)
  | TagOpen                       (* after '<' *)
  | EndTagOpen                    (* after '</' *)
  | Decl                          (* '<!...' / '<?...' / bogus comment up to '>' *)
  | TagName (cl : bool) (nm : list Z)
  | BeforeAttr (cl : bool) (nm : list Z)
  | AttrName (cl : bool) (nm : list Z)
  | AfterAttrName (cl : bool) (nm : list Z)
  | BeforeVal (cl : bool) (nm : list Z)
  | AttrValDQ (cl : bool) (nm : list Z)
  | AttrValSQ (cl : bool) (nm : list Z)
  | AttrValUnq (cl : bool) (nm : list Z)
  | SelfClose (cl : bool) (nm : list Z).

Definition is_upper (c : Z) : bool := (65 <=? c) && (c <=? 90).
Definition is_alpha (c : Z) : bool :=
  is_upper c || ((97 <=? c) && (c <=? 122)).
Definition lower (c : Z) : Z := if is_upper c then c + 32 else c.
Definition is_ws (c : Z) : bool :=
  (c =? 9) || (c =? 10) || (c =? 12) || (c =? 13) || (c =? 32).

Definition nm_title : list Z := [116;105;116;108;101].
Definition nm_textarea : list Z := [116;101;120;116;97;114;101;97].
Definition nm_style : list Z := [115;116;121;108;101].
Definition nm_script : list Z := [115;99;114;105;112;116].
Definition is_raw (nm : list Z) : bool :=
  lz_eqb nm nm_title || lz_eqb nm nm_textarea || lz_eqb nm nm_style
  || lz_eqb nm nm_script.

(* state after the '>' of a tag *)
Definition after_tag (cl : bool) (nm : list Z) : state :=
  if cl then Text else if is_raw nm then RCDATA nm else Text.

Definition step_before_attr (cl : bool) (nm : list Z) (c : Z)
  : state * list event :=
  if is_ws c then (BeforeAttr cl nm, [])
  else if c =? 47 then (SelfClose cl nm, [])
  else if c =? 62 then (after_tag cl nm, [TagClose])
  else (AttrName cl nm, [AttrStart; AttrCh (lower c)]).

Definition step (st : state) (c : Z) : state * list event :=
  match st with
  | Text => if c =? 60 then (TagOpen, []) else (Text, [])
  | RCDATA el => if c =? 60 then (RcLt el, []) else (RCDATA el, [])
  | RcLt el =>
      if c =? 47 then (RcEnd el [], [])
      else if c =? 60 then (RcLt el, [])
      else (RCDATA el, [])
  | RcEnd el m =>
      if is_alpha c then (RcEnd el (m ++ [lower c]), [])
      else if lz_eqb m el then
        if c =? 62 then (Text, ElemEnd :: map NameCh el ++ [TagClose])
        else if is_ws c then (BeforeAttr true el, ElemEnd :: map NameCh el)
        else if c =? 47 then (SelfClose true el, ElemEnd :: map NameCh el)
        else if c =? 60 then (RcLt el, [])
        else (RCDATA el, [])
      else if c =? 60 then (RcLt el, [])
      else (RCDATA el, [])
  | TagOpen =>
      if is_alpha c then (TagName false [lower c], [ElemStart; NameCh (lower c)])
      else if c =? 47 then (EndTagOpen, [])
      else if (c =? 33) || (c =? 63) then (Decl, [])
      else if c =? 60 then (TagOpen, [])
      else (Text, [])
  | EndTagOpen =>
      if is_alpha c then (TagName true [lower c], [ElemEnd; NameCh (lower c)])
      else if c =? 62 then (Text, [])
      else (Decl, [])
  | Decl => if c =? 62 then (Text, []) else (Decl, [])
  | TagName cl nm =>
      if is_ws c then (BeforeAttr cl nm, [])
      else if c =? 47 then (SelfClose cl nm, [])
      else if c =? 62 then (after_tag cl nm, [TagClose])
      else (TagName cl (nm ++ [lower c]), [NameCh (lower c)])
  | BeforeAttr cl nm => step_before_attr cl nm c
  | AttrName cl nm =>
      if is_ws c then (AfterAttrName cl nm, [])
      else if c =? 47 then (SelfClose cl nm, [])
      else if c =? 61 then (BeforeVal cl nm, [])
      else if c =? 62 then (after_tag cl nm, [TagClose])
      else (AttrName cl nm, [AttrCh (lower c)])
  | AfterAttrName cl nm =>
      if is_ws c then (AfterAttrName cl nm, [])
      else if c =? 47 then (SelfClose cl nm, [])
      else if c =? 61 then (BeforeVal cl nm, [])
      else if c =? 62 then (after_tag cl nm, [TagClose])
      else (AttrName cl nm, [AttrStart; AttrCh (lower c)])
  | BeforeVal cl nm =>
      if is_ws c then (BeforeVal cl nm, [])
      else if c =? 34 then (AttrValDQ cl nm, [ValStart])
      else if c =? 39 then (AttrValSQ cl nm, [ValStart])
      else if c =? 62 then (after_tag cl nm, [TagClose])
      else (AttrValUnq cl nm, [ValStart])
  | AttrValDQ cl nm =>
      if c =? 34 then (BeforeAttr cl nm, [ValEnd]) else (AttrValDQ cl nm, [])
  | AttrValSQ cl nm =>
      if c =? 39 then (BeforeAttr cl nm, [ValEnd]) else (AttrValSQ cl nm, [])
  | AttrValUnq cl nm =>
      if is_ws c then (BeforeAttr cl nm, [ValEnd])
      else if c =? 62 then (after_tag cl nm, [ValEnd; TagClose])
      else (AttrValUnq cl nm, [])
  | SelfClose cl nm =>
      if c =? 62 then (Text, [TagClose]) else step_before_attr cl nm c
  end.

Fixpoint tok (st : state) (s : list Z) : state * list event :=
  match s with
  | [] => (st, [])
  | c :: s' =>
      let (st1, e1) := step st c in
      let (st2, e2) := tok st1 s' in (st2, e1 ++ e2)
  end.

(* the element/attribute structure of a document *)
Definition events (s : list Z) : list event := snd (tok Text s).

(* ----------------------------------------------------------------- guarded *)
Definition state_eqb (a b : state) : bool :=
  match a, b with
  | Text, Text | TagOpen, TagOpen | EndTagOpen, EndTagOpen | Decl, Decl => true
  | RCDATA x, RCDATA y | RcLt x, RcLt y => lz_eqb x y
  | RcEnd x m, RcEnd y n => lz_eqb x y && lz_eqb m n
  | TagName c x, TagName d y | BeforeAttr c x, BeforeAttr d y
  | AttrName c x, AttrName d y | AfterAttrName c x, AfterAttrName d y
  | BeforeVal c x, BeforeVal d y | AttrValDQ c x, AttrValDQ d y
  | AttrValSQ c x, AttrValSQ d y | AttrValUnq c x, AttrValUnq d y
  | SelfClose c x, SelfClose d y => Bool.eqb c d && lz_eqb x y
  | _, _ => false
  end.

(* script content is not RCDATA-like (no hole may sit there) *)
Definition ctx_of (st : state) : ctx :=
  match st with
  | Text => CText
  | RCDATA el => if lz_eqb el nm_script then COther else CRcdata
  | AttrValDQ _ _ => CAttrDQ
  | _ => COther
  end.

Definition ctx_eqb (a b : ctx) : bool :=
  match a, b with
  | CText, CText | CRcdata, CRcdata | CAttrDQ, CAttrDQ | COther, COther => true
  | _, _ => false
  end.

Definition safe_ctx (x : ctx) : bool :=
  match x with CText | CRcdata | CAttrDQ => true | COther => false end.

(* Tainted    : escaped, in text / RCDATA / double-quoted attribute value;
   TokenChars : in text / RCDATA / double-quoted attribute value;
   Trusted    : unescaped only in text (a trusted value is a well-formed
                fragment, see [same_trusted]); escaped as for Tainted *)
Definition hole_ok (c : cls) (esc : bool) (st : state) : bool :=
  match c with
  | Tainted => esc && safe_ctx (ctx_of st)
  | TokenChars => safe_ctx (ctx_of st)
  | Trusted => if esc then safe_ctx (ctx_of st) else ctx_eqb (ctx_of st) CText
  end.

(* tokenizer state after the page when started in st; None = not guarded *)
Fixpoint guarded_from (st : state) (p : page) : option state :=
  match p with
  | Lit s => Some (fst (tok st s))
  | Hole c esc x =>
      if hole_ok c esc st && ctx_eqb x (ctx_of st) then Some st else None
  | Cat p q =>
      match guarded_from st p with
      | Some s1 => guarded_from s1 q
      | None => None
      end
  | Cond _ a b =>
      match guarded_from st a, guarded_from st b with
      | Some s1, Some s2 => if state_eqb s1 s2 then Some s1 else None
      | _, _ => None
      end
  | Loop sep body =>
      match guarded_from st body with
      | Some s1 =>
          if state_eqb s1 st && state_eqb (fst (tok st sep)) st
          then Some st else None
      | None => None
      end
  end.

Definition guarded (p : page) : bool :=
  match guarded_from Text p with Some _ => true | None => false end.

(* RFC 9110 tchar *)
Definition is_tchar (c : Z) : bool :=
  is_alpha c || ((48 <=? c) && (c <=? 57))
  || (c =? 33) || (c =? 35) || (c =? 36) || (c =? 37) || (c =? 38)
  || (c =? 39) || (c =? 42) || (c =? 43) || (c =? 45) || (c =? 46)
  || (c =? 94) || (c =? 95) || (c =? 96) || (c =? 124) || (c =? 126).

(* ----------------------------------------------- correspondence entry points *)
Definition run_escape (s : list Z) : V := VS (html_escape s).
Definition run_render (p : page) (e : env) : V := VS (render p e).

(* readable skeleton of the structure events: <name attr= attr></name> *)
Fixpoint skeleton (evs : list event) : list Z :=
  match evs with
  | [] => []
  | ElemStart :: r => 60 :: skeleton r
  | ElemEnd :: r => 60 :: 47 :: skeleton r
  | NameCh c :: r => c :: skeleton r
  | AttrStart :: r => 32 :: skeleton r
  | AttrCh c :: r => c :: skeleton r
  | ValStart :: r => 61 :: skeleton r
  | ValEnd :: r => skeleton r
  | TagClose :: r => 62 :: skeleton r
  end.
Definition run_skeleton (s : list Z) : V := VS (skeleton (events s)).
