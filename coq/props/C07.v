(* C07  Byte-range answers follow RFC 9110 for every range and representation.
   Statements only; proofs are [exact <lemma of proofs/RangeProofs.v>].
   [rfc_range]/[rfc_slice]/[rfc_answer] are the independent RFC 9110 oracle
   (model/Range.v, proofs/RangeProofs.v); everything else is the model of
   response.py. *)
From Coq Require Import ZArith List Bool.
Require Import PW.lib.Val PW.lib.Dec PW.model.Range PW.proofs.RangeProofs.
Import ListNotations.
Open Scope Z_scope.

(* window arithmetic = RFC 9110, for every length and every single range *)
Theorem C07_window_is_rfc :
  forall L r, 0 <= L -> valid_range r ->
    window_agrees L (range_window L r) (rfc_range L r).
Proof. exact window_is_rfc. Qed.
Print Assumptions C07_window_is_rfc.

(* buffered response (any initial data, any history of writes and .data
   reads), any list of supplied ranges: status, Content-Range, Content-Length
   and body are exactly the RFC answer for the first consistent range; no
   range -> 200 with the complete body *)
Theorem C07_buffer_answer_is_rfc :
  forall init ops ranges, Forall sane_range ranges ->
    response_answer init ops ranges
    = rfc_answer (init ++ writes ops) (make_partial ranges).
Proof. exact response_is_rfc. Qed.
Print Assumptions C07_buffer_answer_is_rfc.

(* file object positioned at p: the representation is the file from p *)
Theorem C07_fileobj_answer_is_rfc :
  forall content p ranges, 0 <= p <= zlen content -> Forall sane_range ranges ->
    fileobj_answer content p ranges
    = rfc_answer (zdrop p content) (make_partial ranges).
Proof. exact fileobj_is_rfc. Qed.
Print Assumptions C07_fileobj_answer_is_rfc.

(* chunk generator with declared length, under EVERY chunking (incl. empty
   chunks): structural induction over the chunk list *)
Theorem C07_generator_slice_exact :
  forall chunks s e,
    0 <= s -> match e with Some en => s <= en | None => True end ->
    concat (range_gen chunks 0 s e) = slice_from (concat chunks) s e.
Proof. exact generator_slice_exact. Qed.
Print Assumptions C07_generator_slice_exact.

Theorem C07_generator_answer_is_rfc :
  forall chunks ranges, Forall sane_range ranges ->
    g_as_answer (generator_answer chunks (zlen (concat chunks)) ranges)
    = rfc_answer (concat chunks) (make_partial ranges).
Proof. exact generator_is_rfc. Qed.
Print Assumptions C07_generator_answer_is_rfc.

(* only consistent supplied ranges survive make_partial (so "the first
   range" is the first consistent one) *)
Theorem C07_make_partial_valid :
  forall rs, Forall sane_range rs -> Forall valid_range (make_partial rs).
Proof. exact make_partial_valid. Qed.
Print Assumptions C07_make_partial_valid.

(* ---- translator tie: the model used above equals the definitions that
   harness/py2v.py generates from the current poorwsgi/response.py
   (gen/RangeGen.v, rewritten on every check run), over the Python semantics
   of lib/Py.v.  [block_expected] renders the model's window as the state and
   header-operation log the code leaves behind. *)
From Coq Require Import String.
Require Import PW.lib.Py PW.gen.RangeGen PW.proofs.RangeGenEq.
Open Scope string_scope.
Open Scope list_scope.
Open Scope Z_scope.

Theorem C07_generated_range_block_is_model :
  forall L r rs h s0 e0,
    0 <= L -> valid_range r ->
    gen_range_block (PInt L) (PList (inj_range r :: rs)) (PList h) s0 e0 (PInt 200)
    = block_expected h L r.
Proof. exact gen_range_block_eq. Qed.
Print Assumptions C07_generated_range_block_is_model.

Theorem C07_generated_make_partial_is_model :
  forall h old u0 rs units,
    gen_make_partial (PInt 200) (PList h) (PList old) u0
                     (PList (map inj_range rs)) (PStr units)
    = Ok (PTuple [PStr units;
                  PList (h ++ [PTuple [PStr (s2l "add_header");
                                       PStr (s2l "Accept-Ranges"); PStr units]]);
                  PList (map inj_range (make_partial rs))]).
Proof. exact gen_make_partial_eq. Qed.
Print Assumptions C07_generated_make_partial_is_model.

Theorem C07_generated_range_generator_is_model :
  forall chunks s e,
    gen_range_generator (PList (map PBytes chunks)) (PInt s) (inj_oz e)
    = Ok (PList (map PBytes (range_gen chunks 0 s e))).
Proof. exact gen_range_generator_eq. Qed.
Print Assumptions C07_generated_range_generator_is_model.
