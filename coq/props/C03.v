(* C03  Before/after hooks run once, in order, around every dispatched request. *)
From Coq Require Import ZArith List Bool.
Require Import PW.lib.Val PW.model.Dispatch PW.proofs.DispatchProofs PW.proofs.DispatchMore.
Import ListNotations.
Open Scope Z_scope.

Section C03.
  Variable known_status : Z -> bool.
  Variable isinst : exn -> Z -> bool.
  Variable builtin : Z -> bool.
  Variable page : Z -> resp.

  (* For every list of before hooks (any length, any behaviours) and every
     dispatched request -- endpoint, 404/405/403 leaves, file, listing, debug
     page -- the before hooks that run are hooks 0..k in registration order,
     each exactly once, where k is the first hook that stops the request (all
     of them if none does); the endpoint event follows them and exists exactly
     when no hook stopped the request. [first_fail] is that first stopping
     hook. *)
  Theorem C03_before_hooks_exact :
    forall a f,
      fconstruct f = None -> (forall e, fleaf f <> LPre e) ->
      snd (try_body known_status a f) =
      map EvBefore (seq 0 (before_ran a)) ++
      match first_fail (before a), fleaf f with
      | None, LEndpoint _ => [EvEndpoint]
      | _, _ => []
      end.
  Proof. exact (before_hooks_exact known_status). Qed.

  Theorem C03_before_stop_propagates :
    forall a f k e,
      fconstruct f = None -> (forall e, fleaf f <> LPre e) ->
      first_fail (before a) = Some (k, e) ->
      fst (try_body known_status a f) = Exc e.
  Proof. exact (before_stop_propagates known_status). Qed.

  (* after hooks: hook i receives the (converted) result of hook i-1, hook 0
     the response of the request phase; the loop stops at the first failing
     hook.  [after_inputs] / [after_result] are that specification. *)
  Theorem C03_after_loop_exact :
    forall hooks i r,
      run_after known_status hooks i r =
      (after_result known_status hooks r,
       number_from i (after_inputs known_status hooks r)).
  Proof. exact (run_after_spec known_status). Qed.

  (* the client receives what the last after hook returned; if one fails, the
     matching exception handler's answer, else the 500 resolution *)
  Theorem C03_after_hooks_final :
    forall a m r,
      fst (after_phase known_status isinst builtin page a m r) =
      match after_result known_status (after a) r with
      | Val r' => Val r'
      | Exc e =>
          match fst (error_from_table known_status isinst builtin page a m e) with
          | Val (Some y) => Val y
          | Val None => fst (state_from_table known_status builtin page a m 500)
          | Exc z => Exc z
          end
      end.
  Proof. exact (after_hooks_exact known_status isinst builtin page). Qed.

  (* no after hook runs outside that loop (none is re-run by the fallback) *)
  Theorem C03_after_events_exact :
    forall a m r, exists rest,
      snd (after_phase known_status isinst builtin page a m r)
      = number_from 0 (after_inputs known_status (after a) r) ++ rest /\
      (forall i x, ~ In (EvAfter i x) rest).
  Proof. exact (after_events_exact known_status isinst builtin page). Qed.
End C03.

Print Assumptions C03_before_hooks_exact.
Print Assumptions C03_before_stop_propagates.
Print Assumptions C03_after_loop_exact.
Print Assumptions C03_after_hooks_final.
Print Assumptions C03_after_events_exact.

(* ---- translator tie: the hook loops [run_before], [run_after] and the
   fallback of [after_phase] used above are equal to the definitions
   generated from the current poorwsgi/wsgi.py
   (Application.handler_from_before; the `for fun in self.__after` loop of
   Application.__request__ with its `except BaseException` clause, followed
   by the generated final part) by harness/py2v_dispatch.py, over the
   primitives of lib/PyDispatch.v ([tag_hooks] attaches to hook number i the
   event EvBefore i / EvAfter i its call leaves) *)
Require Import PW.lib.PyDispatch PW.gen.DispatchGen PW.proofs.DispatchGenEq.

Theorem C03_generated_before_loop_is_model :
  forall w a req hooks i,
    gen_handler_from_before_loop1 w a req (tag_hooks TBefore i hooks)
    = (match fst (run_before hooks i) with
       | Val _ => Val (Norm tt) | Exc e => Exc e end,
       snd (run_before hooks i)).
Proof. exact hfb_loop_eq. Qed.
Print Assumptions C03_generated_before_loop_is_model.

Theorem C03_generated_handler_from_before_is_model :
  forall w a req,
    gen_handler_from_before w a req
    = (lift_unit (fst (run_before (before a) 0)), snd (run_before (before a) 0)).
Proof. exact gen_handler_from_before_eq. Qed.
Print Assumptions C03_generated_handler_from_before_is_model.

Theorem C03_generated_after_loop_is_model :
  forall w a f m hooks i r,
    gen_request_loop1 w a f (DR m) (tag_hooks TAfter i hooks) (DV (PResp r))
    = (match fst (run_after (w_known w) hooks i r) with
       | Val r' => Val (Norm (DV (PResp r'))) | Exc e => Exc e end,
       snd (run_after (w_known w) hooks i r)).
Proof. exact after_loop_eq. Qed.
Print Assumptions C03_generated_after_loop_is_model.

(* gen_request_k1 = everything of __request__ after the try/except ladder:
   the after-hook try statement, then response(start_response) *)
Theorem C03_generated_after_phase_is_model :
  forall w a f sr m r,
    gen_request_k1 w a f DEnv sr (DR m) (DV (PResp r))
    = (after_out w (fst (after_phase (w_known w) (w_isinst w) (w_builtin w) (w_page w) a m r)),
       snd (after_phase (w_known w) (w_isinst w) (w_builtin w) (w_page w) a m r)).
Proof. exact gen_request_k1_eq. Qed.
Print Assumptions C03_generated_after_phase_is_model.

(* ---- translator tie: "the endpoint has been chosen (which the hook can
   already see on the request)" rests on the three write-once slots of
   poorwsgi/request.py SimpleRequest (uri_rule, uri_handler, error_handler).
   gen/SlotsGen.v is regenerated from the current source by
   harness/py2v_slots.py (SimpleRequest.__init__ slot part; the @property
   getters and @<name>.setter setters, decorators and class-level bindings
   verified) over lib/PySlots.v (an object = its attribute store; None =
   Python's None); the hand model is model/Slots.v.  [abs o] reads the three
   private attributes `_SimpleRequest__<name>` of an object.  For every
   object state and every value: __init__ leaves the slots empty, the getter
   returns the slot, the setter is [set_once] on its own slot and stores to
   no other attribute; hence assigning an empty slot yields exactly the
   value and a filled slot is never changed. *)
From Coq Require Import String.
Require Import PW.lib.PySlots PW.model.Slots PW.proofs.SlotsProofs
  PW.gen.SlotsGen PW.proofs.SlotsGenEq.
Local Open Scope string_scope.
Local Open Scope list_scope.

Theorem C03_generated_uri_handler_slot_is_write_once :
  forall A : Type,
    (forall o : obj A, abs A (gen_init_slots o) = empty_slots) /\
    (forall o : obj A, gen_uri_handler_get o = get UriHandler (abs A o)) /\
    (forall (o : obj A) v,
        abs A (gen_uri_handler_set o v) = set_slot UriHandler v (abs A o)) /\
    (forall (o : obj A) v name,
        name <> "_SimpleRequest__uri_handler" ->
        gen_uri_handler_set o v name = o name) /\
    (forall (o : obj A) v,
        gen_uri_handler_get o = None ->
        gen_uri_handler_get (gen_uri_handler_set o v) = v) /\
    (forall (o : obj A) v x,
        gen_uri_handler_get o = Some x ->
        gen_uri_handler_get (gen_uri_handler_set o v) = Some x).
Proof. exact (fun A => generated_slot_is_write_once A UriHandler). Qed.
Print Assumptions C03_generated_uri_handler_slot_is_write_once.

Theorem C03_generated_uri_rule_slot_is_write_once :
  forall A : Type,
    (forall o : obj A, abs A (gen_init_slots o) = empty_slots) /\
    (forall o : obj A, gen_uri_rule_get o = get UriRule (abs A o)) /\
    (forall (o : obj A) v,
        abs A (gen_uri_rule_set o v) = set_slot UriRule v (abs A o)) /\
    (forall (o : obj A) v name,
        name <> "_SimpleRequest__uri_rule" ->
        gen_uri_rule_set o v name = o name) /\
    (forall (o : obj A) v,
        gen_uri_rule_get o = None ->
        gen_uri_rule_get (gen_uri_rule_set o v) = v) /\
    (forall (o : obj A) v x,
        gen_uri_rule_get o = Some x ->
        gen_uri_rule_get (gen_uri_rule_set o v) = Some x).
Proof. exact (fun A => generated_slot_is_write_once A UriRule). Qed.
Print Assumptions C03_generated_uri_rule_slot_is_write_once.

Theorem C03_generated_error_handler_slot_is_write_once :
  forall A : Type,
    (forall o : obj A, abs A (gen_init_slots o) = empty_slots) /\
    (forall o : obj A, gen_error_handler_get o = get ErrorHandler (abs A o)) /\
    (forall (o : obj A) v,
        abs A (gen_error_handler_set o v)
        = set_slot ErrorHandler v (abs A o)) /\
    (forall (o : obj A) v name,
        name <> "_SimpleRequest__error_handler" ->
        gen_error_handler_set o v name = o name) /\
    (forall (o : obj A) v,
        gen_error_handler_get o = None ->
        gen_error_handler_get (gen_error_handler_set o v) = v) /\
    (forall (o : obj A) v x,
        gen_error_handler_get o = Some x ->
        gen_error_handler_get (gen_error_handler_set o v) = Some x).
Proof. exact (fun A => generated_slot_is_write_once A ErrorHandler). Qed.
Print Assumptions C03_generated_error_handler_slot_is_write_once.

(* the model fact behind them: a slot once set never changes under any
   sequence of assignments to the three properties *)
Theorem C03_filled_slot_is_stable :
  forall (A : Type) n (x : A) ops s,
    get n s = Some x -> get n (run_ops ops s) = Some x.
Proof. exact filled_slot_is_stable. Qed.
Print Assumptions C03_filled_slot_is_stable.

(* ---- census tie (gen/SlotsGen.v [slot_writers], regenerated from every
   poorwsgi/*.py on each run): every assignment / del / other binding of an
   attribute named *uri_rule, *uri_handler, *error_handler (public property,
   private attribute, mangled private attribute), every setattr / delattr /
   __dict__ use, and every class-level definition of these names or of an
   attribute-protocol method, is one the model accounts for
   (model/Slots.v [allowed_slot_writers]): __init__ and the setters
   themselves, handler_from_table, handler_from_default, state_from_table,
   error_from_table.  Nothing else in the package writes the slots.  The
   [In] clauses: the entries the property rests on are really there. *)
Theorem C03_generated_endpoint_slot_writers_are_the_modelled_ones :
  (forall w, In w slot_writers -> In w allowed_slot_writers) /\
  In ("wsgi.Application.handler_from_table", "arg1.uri_handler", "loc0")
     slot_writers /\
  In ("wsgi.Application.handler_from_table", "arg1.uri_rule", "arg1.path")
     slot_writers /\
  In ("wsgi.Application.handler_from_default", "arg1.uri_handler",
      "arg0.__dhandlers[arg1.method_number]") slot_writers /\
  In ("request.SimpleRequest.uri_handler", "arg0.__uri_handler", "arg1")
     slot_writers /\
  In ("request.SimpleRequest", "def uri_handler", "uri_handler.setter")
     slot_writers.
Proof.
  split; [apply slot_writers_ok_spec; vm_compute; reflexivity|].
  repeat split; vm_compute; tauto.
Qed.
Print Assumptions C03_generated_endpoint_slot_writers_are_the_modelled_ones.

(* after the application has assigned the chosen rule and handler on a
   freshly initialised request (generated __init__ and setters), whatever
   the before hooks assign through the three properties -- [hooks] = the
   assignments of each hook, [k] = how many hooks have run -- every hook and
   the endpoint read the chosen rule and handler *)
Theorem C03_hooks_cannot_change_the_visible_endpoint :
  forall (A : Type) (r h : A) (o : obj A) (hooks : list (list (op A))) k,
    let o1 := gen_uri_handler_set
                (gen_uri_rule_set (gen_init_slots o) (Some r)) (Some h) in
    let o2 := gen_run_ops A (List.concat (firstn k hooks)) o1 in
    gen_uri_rule_get o2 = Some r /\ gen_uri_handler_get o2 = Some h.
Proof. exact generated_hooks_cannot_change_the_visible_endpoint. Qed.
Print Assumptions C03_hooks_cannot_change_the_visible_endpoint.
