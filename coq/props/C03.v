(* C03  Before/after hooks run once, in order, around every dispatched request. *)
From Coq Require Import ZArith List Bool.
Require Import PW.lib.Val PW.model.Dispatch PW.proofs.DispatchProofs PW.proofs.DispatchMore.
Import ListNotations.
Open Scope Z_scope.

Section C03.
  Variable known_status : Z -> bool.
  Variable isinst : exn -> Z -> bool.
  Variable builtin : Z -> bool.
  Variable page : Z -> resp.

  (* For every list of before hooks (any length, any behaviours) and every
     dispatched request -- endpoint, 404/405/403 leaves, file, listing, debug
     page -- the before hooks that run are hooks 0..k in registration order,
     each exactly once, where k is the first hook that stops the request (all
     of them if none does); the endpoint event follows them and exists exactly
     when no hook stopped the request. [first_fail] is that first stopping
     hook. *)
  Theorem C03_before_hooks_exact :
    forall a f,
      fconstruct f = None -> (forall e, fleaf f <> LPre e) ->
      snd (try_body known_status a f) =
      map EvBefore (seq 0 (before_ran a)) ++
      match first_fail (before a), fleaf f with
      | None, LEndpoint _ => [EvEndpoint]
      | _, _ => []
      end.
  Proof. exact (before_hooks_exact known_status). Qed.

  Theorem C03_before_stop_propagates :
    forall a f k e,
      fconstruct f = None -> (forall e, fleaf f <> LPre e) ->
      first_fail (before a) = Some (k, e) ->
      fst (try_body known_status a f) = Exc e.
  Proof. exact (before_stop_propagates known_status). Qed.

  (* after hooks: hook i receives the (converted) result of hook i-1, hook 0
     the response of the request phase; the loop stops at the first failing
     hook.  [after_inputs] / [after_result] are that specification. *)
  Theorem C03_after_loop_exact :
    forall hooks i r,
      run_after known_status hooks i r =
      (after_result known_status hooks r,
       number_from i (after_inputs known_status hooks r)).
  Proof. exact (run_after_spec known_status). Qed.

  (* the client receives what the last after hook returned; if one fails, the
     matching exception handler's answer, else the 500 resolution *)
  Theorem C03_after_hooks_final :
    forall a m r,
      fst (after_phase known_status isinst builtin page a m r) =
      match after_result known_status (after a) r with
      | Val r' => Val r'
      | Exc e =>
          match fst (error_from_table known_status isinst builtin page a m e) with
          | Val (Some y) => Val y
          | Val None => fst (state_from_table known_status builtin page a m 500)
          | Exc z => Exc z
          end
      end.
  Proof. exact (after_hooks_exact known_status isinst builtin page). Qed.

  (* no after hook runs outside that loop (none is re-run by the fallback) *)
  Theorem C03_after_events_exact :
    forall a m r, exists rest,
      snd (after_phase known_status isinst builtin page a m r)
      = number_from 0 (after_inputs known_status (after a) r) ++ rest /\
      (forall i x, ~ In (EvAfter i x) rest).
  Proof. exact (after_events_exact known_status isinst builtin page). Qed.
End C03.

Print Assumptions C03_before_hooks_exact.
Print Assumptions C03_before_stop_propagates.
Print Assumptions C03_after_loop_exact.
Print Assumptions C03_after_hooks_final.
Print Assumptions C03_after_events_exact.

(* ---- translator tie: the hook loops [run_before], [run_after] and the
   fallback of [after_phase] used above are equal to the definitions
   generated from the current poorwsgi/wsgi.py
   (Application.handler_from_before; the `for fun in self.__after` loop of
   Application.__request__ with its `except BaseException` clause, followed
   by the generated final part) by harness/py2v_dispatch.py, over the
   primitives of lib/PyDispatch.v ([tag_hooks] attaches to hook number i the
   event EvBefore i / EvAfter i its call leaves) *)
Require Import PW.lib.PyDispatch PW.gen.DispatchGen PW.proofs.DispatchGenEq.

Theorem C03_generated_before_loop_is_model :
  forall w a req hooks i,
    gen_handler_from_before_loop1 w a req (tag_hooks TBefore i hooks)
    = (match fst (run_before hooks i) with
       | Val _ => Val (Norm tt) | Exc e => Exc e end,
       snd (run_before hooks i)).
Proof. exact hfb_loop_eq. Qed.
Print Assumptions C03_generated_before_loop_is_model.

Theorem C03_generated_handler_from_before_is_model :
  forall w a req,
    gen_handler_from_before w a req
    = (lift_unit (fst (run_before (before a) 0)), snd (run_before (before a) 0)).
Proof. exact gen_handler_from_before_eq. Qed.
Print Assumptions C03_generated_handler_from_before_is_model.

Theorem C03_generated_after_loop_is_model :
  forall w a f m hooks i r,
    gen_request_loop1 w a f (DR m) (tag_hooks TAfter i hooks) (DV (PResp r))
    = (match fst (run_after (w_known w) hooks i r) with
       | Val r' => Val (Norm (DV (PResp r'))) | Exc e => Exc e end,
       snd (run_after (w_known w) hooks i r)).
Proof. exact after_loop_eq. Qed.
Print Assumptions C03_generated_after_loop_is_model.

(* gen_request_k1 = everything of __request__ after the try/except ladder:
   the after-hook try statement, then response(start_response) *)
Theorem C03_generated_after_phase_is_model :
  forall w a f sr m r,
    gen_request_k1 w a f DEnv sr (DR m) (DV (PResp r))
    = (after_out w (fst (after_phase (w_known w) (w_isinst w) (w_builtin w) (w_page w) a m r)),
       snd (after_phase (w_known w) (w_isinst w) (w_builtin w) (w_page w) a m r)).
Proof. exact gen_request_k1_eq. Qed.
Print Assumptions C03_generated_after_phase_is_model.
