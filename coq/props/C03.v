(* C03  Before/after hooks run once, in order, around every dispatched request. *)
From Coq Require Import ZArith List Bool.
Require Import PW.lib.Val PW.model.Dispatch PW.proofs.DispatchProofs PW.proofs.DispatchMore.
Import ListNotations.
Open Scope Z_scope.

Section C03.
  Variable known_status : Z -> bool.
  Variable isinst : exn -> Z -> bool.
  Variable builtin : Z -> bool.
  Variable page : Z -> resp.

  (* For every list of before hooks (any length, any behaviours) and every
     dispatched request -- endpoint, 404/405/403 leaves, file, listing, debug
     page -- the before hooks that run are hooks 0..k in registration order,
     each exactly once, where k is the first hook that stops the request (all
     of them if none does); the endpoint event follows them and exists exactly
     when no hook stopped the request. [first_fail] is that first stopping
     hook. *)
  Theorem C03_before_hooks_exact :
    forall a f,
      fconstruct f = None -> (forall e, fleaf f <> LPre e) ->
      snd (try_body known_status a f) =
      map EvBefore (seq 0 (before_ran a)) ++
      match first_fail (before a), fleaf f with
      | None, LEndpoint _ => [EvEndpoint]
      | _, _ => []
      end.
  Proof. exact (before_hooks_exact known_status). Qed.

  Theorem C03_before_stop_propagates :
    forall a f k e,
      fconstruct f = None -> (forall e, fleaf f <> LPre e) ->
      first_fail (before a) = Some (k, e) ->
      fst (try_body known_status a f) = Exc e.
  Proof. exact (before_stop_propagates known_status). Qed.

  (* after hooks: hook i receives the (converted) result of hook i-1, hook 0
     the response of the request phase; the loop stops at the first failing
     hook.  [after_inputs] / [after_result] are that specification. *)
  Theorem C03_after_loop_exact :
    forall hooks i r,
      run_after known_status hooks i r =
      (after_result known_status hooks r,
       number_from i (after_inputs known_status hooks r)).
  Proof. exact (run_after_spec known_status). Qed.

  (* the client receives what the last after hook returned; if one fails, the
     matching exception handler's answer, else the 500 resolution *)
  Theorem C03_after_hooks_final :
    forall a m r,
      fst (after_phase known_status isinst builtin page a m r) =
      match after_result known_status (after a) r with
      | Val r' => Val r'
      | Exc e =>
          match fst (error_from_table known_status isinst builtin page a m e) with
          | Val (Some y) => Val y
          | Val None => fst (state_from_table known_status builtin page a m 500)
          | Exc z => Exc z
          end
      end.
  Proof. exact (after_hooks_exact known_status isinst builtin page). Qed.

  (* no after hook runs outside that loop (none is re-run by the fallback) *)
  Theorem C03_after_events_exact :
    forall a m r, exists rest,
      snd (after_phase known_status isinst builtin page a m r)
      = number_from 0 (after_inputs known_status (after a) r) ++ rest /\
      (forall i x, ~ In (EvAfter i x) rest).
  Proof. exact (after_events_exact known_status isinst builtin page). Qed.
End C03.

Print Assumptions C03_before_hooks_exact.
Print Assumptions C03_before_stop_propagates.
Print Assumptions C03_after_loop_exact.
Print Assumptions C03_after_hooks_final.
Print Assumptions C03_after_events_exact.
