(* C08  multipart/form-data decodes to exactly the parts that were encoded.
   Statements only; every proof is [exact <lemma of proofs/MultipartProofs.v>].

   Vocabulary (model/Multipart.v): a line source is a state type [St] with
   [rl size s = (line, s')] for input.readline(size) and the ghost view
   [rem s] of the bytes not yet handed out; [good_reader St rl rem L P] is
   the contract the parser needs from it, for the size arguments [L] and on
   the states [P]:
     pieces concatenate to the input; an empty piece means end of input; a
     piece never runs past a CRLF; a piece that does not end with LF is a
     size cut or the end of input.
   (Since /repo commit 0c4c429 the parser no longer needs "when a cut
   separates CR from LF the LF comes back as a piece of its own"; before it,
   the CRLF-splitting reader violated that clause and parts were lost.)
   [bline b last pad] is a delimiter line without its line end
   ("--b" ["--"] padding), [no_delim_line b c] says that no line of the
   content c reads as a delimiter line (near copies like "--bX", "--b-",
   "--b--X" are allowed), [boundary_ok] is valid_boundary without its
   "$ matches before a trailing newline" quirk. *)
From Coq Require Import ZArith List Bool.
Require Import PW.lib.Val PW.model.Multipart PW.proofs.MultipartProofs.
Import ListNotations.
Open Scope Z_scope.

(* (1) The heart: read_lines_to_outerboundary, started at the first byte of
   a content c (ANY bytes: CR, LF, dashes, near copies of the boundary, ...)
   that is followed by CRLF, a delimiter line and [rest], returns exactly c
   for every way a good reader cuts the input into lines, tells whether the
   delimiter was the closing one, has counted exactly the bytes up to the
   end of the delimiter line and leaves the reader at [rest]. *)
Theorem C08_lines_to_boundary_exact :
  forall (St : Type) (rl : Z -> St -> bytes * St) (rem : St -> bytes)
         (L : Z -> Prop) (P : St -> Prop),
    good_reader St rl rem L P ->
  forall (maxline : Z) (b : bytes) (last : bool) (pad c eol rest : bytes)
         (limit : option Z) (s : St) (fuel : nat),
    L maxline ->
    boundary_ok b = true ->
    forallb is_blank_c pad = true ->
    (eol = [13; 10] \/ (eol = [] /\ rest = [])) ->
    len (bline b last pad) + 3 <= maxline ->
    len b + 6 <= maxline ->
    no_delim_line b c ->
    limit_ok limit (len c) ->
    P s ->
    rem s = c ++ [13; 10] ++ bline b last pad ++ eol ++ rest ->
    len (rem s) < Z.of_nat fuel ->
    exists pieces s',
      rlob St rl maxline fuel (dashb b) (dashb b ++ [45; 45]) limit
           [] [] true 0 s
        = RDone pieces (if last then 1 else 0)
                (len c + 2 + len (bline b last pad) + len eol) s' /\
      List.concat pieces = c /\ rem s' = rest /\ P s'.
Proof. exact lines_to_boundary_exact. Qed.
Print Assumptions C08_lines_to_boundary_exact.

(* the property's own hypothesis ("the boundary does not occur in the
   content") implies the one used above *)
Theorem C08_boundary_absent_suffices :
  forall b c, ~ occurs (10 :: dashb b) (10 :: c) -> no_delim_line b c.
Proof. exact not_occurs_no_delim. Qed.
Print Assumptions C08_boundary_absent_suffices.

(* io.BytesIO.readline satisfies the contract, for every size argument and
   every input *)
Theorem C08_lf_reader_good :
  good_reader bytes lf_line idb any_lim any_state.
Proof. exact lf_reader_good. Qed.
Print Assumptions C08_lf_reader_good.

(* ... and so does CachedInput.readline (seen from outside: a line ends
   after a CRLF that fits into the size, a bare LF does not end it), for
   every size argument and every input -- including the inputs on which it
   separates a CR from the LF behind it *)
Theorem C08_crlf_reader_good :
  good_reader bytes crlf_line idb any_lim any_state.
Proof. exact crlf_reader_good. Qed.
Print Assumptions C08_crlf_reader_good.

(* the case that was a defect until 0c4c429, as a computed instance: the
   size cut falls between the CR and the LF in front of the delimiter *)
Theorem C08_crlf_cut_divides_delimiter_ok :
  let b := [98] in let c := [97; 97; 97; 97; 97; 97; 97] in
  let rest := [110; 101; 120; 116] in       (* "b", "aaaaaaa", "next" *)
  let input := c ++ [13; 10] ++ bline b false [] ++ [13; 10] ++ rest in
  fst (crlf_line 8 input) = c ++ [13] /\
  exists pieces n,
    rlob bytes crlf_line 8 (fuel_for input) (dashb b) (dashb b ++ [45; 45])
         None [] [] true 0 input = RDone pieces 0 n rest /\
    List.concat pieces = c.
Proof. exact crlf_cut_divides_delimiter_ok. Qed.
Print Assumptions C08_crlf_cut_divides_delimiter_ok.

(* (2) Round trip of flat part lists: parsing encode b parts gives fields
   with the same names, filenames, media types and byte-exact contents, in
   order, and consumes the input; with or without the final CRLF, with the
   Content-Length absent or correct, for every good reader.
   [part_wf b p] (model/Multipart.v) has no hypothesis about the header codec
   any more (it used to be the hypothesis [headers_decode], false for a name
   ending in a backslash in front of a filename parameter until _parseparam
   was repaired; C08_headers_decode below discharges it).  What it asks of a
   part is what an encoder can write into header lines at all:
     name and filename: code points UTF-8 can encode (no lone surrogates)
       and no CR / LF (either ends the header line; RFC 7578 encoders
       percent-encode them) -- everything else is allowed: blanks, quotes,
       semicolons, backslashes anywhere, controls, non-ASCII, the empty name;
     media type, when given: such header text without ';' (the property
       compares the media type, not its parameters) and without blanks at
       its ends, and not multipart/* or application/x-www-form-urlencoded;
     content: no line of it is a delimiter line.
   _partial, because the full statement also covers what is missing here:
   parts that are themselves multipart/* or urlencoded (not modelled), media
   types written with parameters, and text values, which are compared as
   bytes (C08_text_exact_ascii covers ASCII fields; known finding
   text-field-multibyte-at-64k-cut). *)
Theorem C08_multipart_roundtrip_partial :
  forall (St : Type) (rl : Z -> St -> bytes * St) (rem : St -> bytes)
         (L : Z -> Prop) (P : St -> Prop),
    good_reader St rl rem L P ->
  forall (maxline : Z) (b : bytes) (p : part) (ps : list part) (final : bool)
         (ctv : list Z) (clen : Z) (s : St) (fuel : nat),
    L maxline -> L (-1) ->
    boundary_ok b = true -> len b + 7 <= maxline ->
    ctype_names ctv b ->
    Forall (part_wf b) (p :: ps) ->
    P s -> rem s = encode b (p :: ps) final ->
    (clen < 0 \/ clen = len (rem s)) ->
    len (rem s) < Z.of_nat fuel ->
    exists fields s',
      parse St rl maxline fuel (Some ctv) clen s = Ok (fields, s') /\
      Forall2 field_matches (p :: ps) fields /\ rem s' = [].
Proof. exact multipart_roundtrip_wf. Qed.
Print Assumptions C08_multipart_roundtrip_partial.

(* the header codec (UTF-8, the FeedParser subset, parse_header with the
   scanner of _parseparam, unquoting) gives back name, filename and media
   type of EVERY such part: for all names and filenames *)
Theorem C08_headers_decode :
  forall b p,
    b <> [] -> hdr_text (p_name p) = true ->
    match p_filename p with Some f => hdr_text f = true | None => True end ->
    match p_ctype p with Some t => ctype_ok t = true | None => True end ->
    exists hs,
      part_headers (utf8_decode (utf8_encode (part_header_text p))) = Some hs /\
      part_meta hs b = (Some (p_name p), p_filename p, expected_type p).
Proof. exact headers_decode_meta. Qed.
Print Assumptions C08_headers_decode.

(* (3) Two good readers give the same parts for an encoded body (same block
   of hypotheses as above) *)
Theorem C08_reader_independent_partial :
  forall (St1 St2 : Type) rl1 rl2 rem1 rem2 L1 L2 P1 P2,
    good_reader St1 rl1 rem1 L1 P1 -> good_reader St2 rl2 rem2 L2 P2 ->
  forall maxline b p ps final ctv clen s1 s2 fuel,
    L1 maxline -> L1 (-1) -> L2 maxline -> L2 (-1) ->
    boundary_ok b = true -> len b + 7 <= maxline ->
    ctype_names ctv b -> Forall (part_wf b) (p :: ps) ->
    P1 s1 -> P2 s2 ->
    rem1 s1 = encode b (p :: ps) final -> rem2 s2 = encode b (p :: ps) final ->
    (clen < 0 \/ clen = len (encode b (p :: ps) final)) ->
    len (encode b (p :: ps) final) < Z.of_nat fuel ->
    exists fs1 fs2 t1 t2,
      parse St1 rl1 maxline fuel (Some ctv) clen s1 = Ok (fs1, t1) /\
      parse St2 rl2 maxline fuel (Some ctv) clen s2 = Ok (fs2, t2) /\
      Forall2 same_field fs1 fs2.
Proof. exact reader_independent_wf. Qed.
Print Assumptions C08_reader_independent_partial.

(* a text field whose bytes are ASCII is decoded exactly, however the
   reader cut it *)
Theorem C08_text_exact_ascii :
  forall f, Forall (fun c => c < 128) (f_bytes f) -> f_text f = f_bytes f.
Proof. exact text_exact_ascii. Qed.
Print Assumptions C08_text_exact_ascii.

(* the hypotheses are satisfiable by a non-trivial input (names with quotes,
   semicolon, backslash, non-ASCII; a name and a filename ending in a
   backslash; a file whose content is full of CR, LF, NUL, 0xFF and near
   copies of the delimiter; an empty field) *)
Theorem C08_hypotheses_example :
  boundary_ok ex_b = true /\ ctype_names ex_ctv ex_b /\
  Forall (part_wf ex_b) ex_parts.
Proof. exact ex_hypotheses. Qed.
Print Assumptions C08_hypotheses_example.

(* the witness of the former finding param-backslash-before-next-param: the
   headers of a part named trail\ with a filename decode to that name and
   that filename *)
Theorem C08_headers_decode_backslash_witness :
  headers_decode [98] (mkpart [116; 114; 97; 105; 108; 92]
                              (Some [102; 46; 116; 120; 116]) None []).
Proof. exact headers_decode_backslash_witness. Qed.
Print Assumptions C08_headers_decode_backslash_witness.

(* ---- where the faithful model does not round-trip *)

(* "CRLF--b does not occur in the content" (RFC 2046) is not enough: a
   delimiter-like line behind a bare LF ends the part *)
Theorem C08_rfc_delimiter_hypothesis_refuted :
  exists b c rest input,
    input = c ++ [13; 10] ++ bline b false [] ++ [13; 10] ++ rest /\
    boundary_ok b = true /\ ~ occurs (13 :: 10 :: dashb b) c /\
    exists pieces n s',
      rlob bytes lf_line 65536 (fuel_for input) (dashb b)
           (dashb b ++ [45; 45]) None [] [] true 0 input
        = RDone pieces 0 n s' /\
      List.concat pieces <> c.
Proof. exact rfc_delimiter_hypothesis_refuted. Qed.
Print Assumptions C08_rfc_delimiter_hypothesis_refuted.

(* reader independence does not extend to bodies no encoder produces *)
Theorem C08_reader_independent_any_input_refuted :
  exists ctv body,
    parse bytes lf_line 65536 (fuel_for body) (Some ctv) (-1) body <>
    parse bytes crlf_line 65536 (fuel_for body) (Some ctv) (-1) body.
Proof. exact reader_independent_any_input_refuted. Qed.
Print Assumptions C08_reader_independent_any_input_refuted.

(* ---- translator tie: the hand model equals the definitions generated from
   the current poorwsgi/fieldstorage.py (harness/py2v_multipart.py ->
   gen/MultipartGen.v) over the Python semantics of lib/Py.v and
   lib/PyMultipart.v *)
Require Import PW.lib.Py PW.lib.PyMultipart PW.gen.MultipartGen
  PW.proofs.MultipartGenEq.

(* FieldStorageParser._write on the object read_lines created (the parser's
   own BytesIO/StringIO, the temporary file it spilled to, or the product of
   the file factory) = the file model [mwrite]: in-memory test with the
   `not (self.filename and self.file_callback)` guard, BUFSIZE spill through
   make_file() with the copied getvalue(), bytes or decoded write *)
Theorem C08_generated__write_is_model :
  forall (D : list Z -> list Z) (fn : option (list Z)) (cb enc errs : pv)
         (st : fstate) (p : bytes),
    wf fn cb st ->
    gen_write D (inj_name fn) cb enc errs (PBytes p) (inj_file D fn enc st)
    = Py.Ok (inj_file D fn enc (mwrite D fn st p)).
Proof. exact gen_write_eq. Qed.
Print Assumptions C08_generated__write_is_model.

(* ... and the file model is what the model's field says: after writing the
   pieces of a field one by one the file holds exactly f_pieces and is still
   in memory exactly when in_memory (spilled) says so *)
Theorem C08_write_model_is_field :
  forall (fn : option (list Z)) (cb : pv) (f : field),
    f_filename f = fn ->
    let st := fold_left (mwrite utf8_decode fn) (f_pieces f) (start fn cb) in
    contents st = f_pieces f /\ in_mem st = in_memory (Py.truthy cb) f.
Proof. exact write_fold_is_model. Qed.
Print Assumptions C08_write_model_is_field.

(* FieldStorageParser.read_lines_to_outerboundary (the whole while loop) =
   the model's rlob, for every reader [rl], input state, limit, outer
   boundary, configuration and fuel (OutOfFuel on both sides for the same
   fuel); the returned file is the one _write leaves after the model's
   pieces, self.done and self.bytes_read are the model's *)
Theorem C08_generated_read_lines_to_outerboundary_is_model :
  forall (St : Type) (rl : Z -> St -> bytes * St) (D : list Z -> list Z)
         (fn : option (list Z)) (cb enc errs : pv) (B0 : Z) (ob : bytes)
         (limit : option Z) (fuel : nat) (s : St) (st : fstate),
    wf fn cb st ->
    gen_read_lines_to_outerboundary St rl D (inj_lim limit) (PBytes ob) s
      (PInt B0) (PInt 0) (inj_name fn) cb enc errs (inj_file D fn enc st) fuel
    = inj_res St D fn enc B0
        (rlob St rl 65536 fuel (dashb ob) (dashb ob ++ [45; 45]) limit
              [] [] true 0 s) st.
Proof. exact gen_read_lines_to_outerboundary_eq. Qed.
Print Assumptions C08_generated_read_lines_to_outerboundary_is_model.

(* valid_boundary on bytes (isinstance dispatch, the compiled pattern
   "^[ -~]{0,200}[!-~]$" parsed from the source, .match, bool) = the
   model's valid_boundary, including "$" matching before a final newline *)
Theorem C08_generated_valid_boundary_is_model :
  forall b : bytes,
    gen_valid_boundary (PBytes b) = Py.Ok (PBool (valid_boundary b)).
Proof. exact gen_valid_boundary_eq. Qed.
Print Assumptions C08_generated_valid_boundary_is_model.

(* ---- translator tie of the part loop: harness/py2v_multi.py ->
   gen/MultiGen.v (FieldStorageParser._skip_to_boundary, read_multi,
   skip_lines) over lib/PyMulti.v *)
Require Import PW.lib.PyMulti PW.gen.MultiGen PW.proofs.MultiGenEq.

(* FieldStorageParser._skip_to_boundary (valid_boundary test -> ValueError,
   first readline(), the isinstance(bytes) test, bytes_read accounting, the
   `while first_line.strip() != b"--" + innerboundary and first_line` loop)
   = the valid_boundary test of the model's read_multi followed by the
   model's skip_to_boundary, for every reader, input state, boundary,
   starting count and fuel.  The first readline() stands outside the Python
   loop: [fuel] rounds of the loop are [S fuel] rounds of the model. *)
Theorem C08_generated_skip_to_boundary_is_model :
  forall (St : Type) (rl : Z -> St -> bytes * St) (ib : bytes) (B0 : Z)
         (fuel : nat) (s : St),
    gen_skip_to_boundary St rl (PBytes ib) s (PInt B0) fuel
    = if negb (valid_boundary ib) then value_error
      else inj_skip St (skip_to_boundary St rl (S fuel) (dashb ib) B0 s).
Proof. exact gen_skip_to_boundary_eq. Qed.
Print Assumptions C08_generated_skip_to_boundary_is_model.

(* the inner while of read_multi (`data = self.input.readline();
   hdr_text += data; if not data.strip(): break`) = the model's read_hdr, for
   every reader, input state, accumulated text and fuel (OutOfFuel on both
   sides for the same fuel); [hdr_view] forgets the loop's other carried
   variable, the last line read *)
Theorem C08_generated_read_hdr_is_model :
  forall (St : Type) (rl : Z -> St -> bytes * St) (fuel : nat) (a : pv)
         (acc : bytes) (s : St),
    hdr_view St (gen_read_multi_loop_1_1 St rl fuel a (PBytes acc) s)
    = inj_hdr St (read_hdr St rl fuel acc s).
Proof. exact gen_read_hdr_eq. Qed.
Print Assumptions C08_generated_read_hdr_is_model.

(* the `while True` of read_multi (FeedParser feed/close on the decoded
   header text, `del headers['content-length']`, the limit arithmetic
   `None if self.limit is None else self.limit - self.bytes_read`, the
   sub-parser's constructor arguments by parameter name, the
   max_num_fields accounting and its ValueError, `self.bytes_read +=
   field_parser.bytes_read`, `_list.append(part)`, the exit test
   `field_parser.done or self.bytes_read >= self.length > 0`, the final
   skip_lines() of a parser without outer boundary) = the model's
   part_loop.  Primitives: the reader [rl], FeedParser ([FPm] =
   part_headers) and the sub-parser [PARSE], of which is assumed that, called
   with exactly these arguments, it does what the model's parse_part says.
   [part_loop_x] is the model's loop with the two further things the Python
   loop carries (max_num_fields, the returned self.bytes_read). *)
Theorem C08_generated_part_loop_is_model :
  forall (St : Type) (rl : Z -> St -> bytes * St)
         (PARSE : nat -> pv -> St -> res (pv * pv * pv * St))
         (ib : bytes) (limit : option Z) (length : Z)
         (m0 enc errs kbv sp sep cb d0 : pv) (fuel0 : nat),
    (forall hdrs plimit mnf s,
        PARSE fuel0
          (PTuple [enc_hdrs hdrs; PBytes ib; kbv; sp; inj_lim plimit; enc;
                   errs; inj_lim mnf; sep; cb]) s
        = inj_out (inj_part St)
            (parse_part St rl 65536 fuel0 hdrs ib plimit s)) ->
    forall (fuel : nat) (br : Z) (acc : list field) (s : St)
           (a1 a2 a3 a4 a5 a6 a7 : pv),
      list_view St
        (gen_read_multi_loop_1 St rl utf8_decode FPm PARSE fuel0 fuel
           (PBytes ib) m0 enc errs (inj_lim limit) kbv sp sep cb (PInt length)
           (PBytes []) d0 a1 a2 a3 (PInt br) a4 a5 a6 a7 PNone
           (PList (map enc_field acc)) s)
      = inj_out (inj_fields St)
          (part_loop St rl 65536 fuel fuel0 ib limit length br acc s).
Proof. exact gen_part_loop_eq. Qed.
Print Assumptions C08_generated_part_loop_is_model.

(* ... and with a field limit: the extended loop *)
Theorem C08_generated_part_loop_max_num_fields :
  forall (St : Type) (rl : Z -> St -> bytes * St)
         (PARSE : nat -> pv -> St -> res (pv * pv * pv * St))
         (ib : bytes) (limit : option Z) (length : Z)
         (m0 enc errs kbv sp sep cb d0 : pv) (fuel0 : nat),
    (forall hdrs plimit mnf s,
        PARSE fuel0
          (PTuple [enc_hdrs hdrs; PBytes ib; kbv; sp; inj_lim plimit; enc;
                   errs; inj_lim mnf; sep; cb]) s
        = inj_out (inj_part St)
            (parse_part St rl 65536 fuel0 hdrs ib plimit s)) ->
    forall (fuel : nat) (br : Z) (mnf : option Z) (acc : list field) (s : St)
           (a1 a2 a3 a4 a5 a6 a7 : pv),
      gen_read_multi_loop_1 St rl utf8_decode FPm PARSE fuel0 fuel
        (PBytes ib) m0 enc errs (inj_lim limit) kbv sp sep cb (PInt length)
        (PBytes []) d0 a1 a2 a3 (PInt br) a4 a5 a6 a7 (inj_lim mnf)
        (PList (map enc_field acc)) s
      = inj_out (inj_loop St d0)
          (part_loop_x St rl 65536 fuel fuel0 ib limit length br mnf acc s).
Proof. exact part_loop_eq. Qed.
Print Assumptions C08_generated_part_loop_max_num_fields.

Theorem C08_part_loop_x_is_part_loop :
  forall (St : Type) (rl : Z -> St -> bytes * St) (maxline : Z)
         (fuel fuel0 : nat) (ib : bytes) (limit : option Z) (length br : Z)
         (acc : list field) (s : St),
    forget_count
      (part_loop_x St rl maxline fuel fuel0 ib limit length br None acc s)
    = part_loop St rl maxline fuel fuel0 ib limit length br acc s.
Proof. exact part_loop_x_none. Qed.
Print Assumptions C08_part_loop_x_is_part_loop.

(* read_multi of a parser without outer boundary (the top level of a
   request): _skip_to_boundary, the part loop, skip_lines, `return _list`
   = the model's read_multi, whenever the model finds the first delimiter
   line within its fuel (the Python reads the first line outside its loop,
   see C08_generated_skip_to_boundary_is_model) *)
Theorem C08_generated_read_multi_is_model :
  forall (St : Type) (rl : Z -> St -> bytes * St)
         (PARSE : nat -> pv -> St -> res (pv * pv * pv * St))
         (ib : bytes) (limit : option Z) (length : Z)
         (enc errs kbv sp sep cb d0 : pv) (fuel : nat),
    (forall hdrs plimit mnf s,
        PARSE fuel
          (PTuple [enc_hdrs hdrs; PBytes ib; kbv; sp; inj_lim plimit; enc;
                   errs; inj_lim mnf; sep; cb]) s
        = inj_out (inj_part St)
            (parse_part St rl 65536 fuel hdrs ib plimit s)) ->
    forall s : St,
      skip_to_boundary St rl fuel (dashb ib) 0 s <> None ->
      list_view St
        (gen_read_multi St rl utf8_decode FPm PARSE (PBytes ib) s (PInt 0)
           PNone enc errs (inj_lim limit) kbv sp sep cb (PInt length)
           (PBytes []) d0 fuel)
      = inj_out (inj_fields St)
          (read_multi St rl 65536 fuel ib limit length s).
Proof. exact gen_read_multi_is_model. Qed.
Print Assumptions C08_generated_read_multi_is_model.

(* ---- translator tie of the entry part of the parser:
   harness/py2v_fsparse.py -> gen/FsParseGen.v (FieldStorageParser.
   _parse_content_type, parse, __init__), proofs/FsParseGenEq.v *)
Require Import PW.lib.PyFsParse PW.gen.FsParseGen PW.proofs.FsParseGenEq.

(* FieldStorageParser._parse_content_type on a header mapping and an outer
   boundary (bytes): the media type is the third component of the model's
   part_meta (header present -> parse_header; else text/plain inside a
   multipart body, urlencoded at the top), the options are the parameter
   dictionary of the header or {} *)
Theorem C08_generated_parse_content_type_is_model :
  forall (hs : list (list Z * list Z)) (ob : bytes),
    gen_parse_content_type parse_header (enc_hdrs hs) (PBytes ob)
    = Py.Ok (PTuple [PStr (snd (part_meta hs ob));
                     enc_pdict (match hdr_get hs k_ctype with
                                | Some v => snd (parse_header v)
                                | None => []
                                end)]).
Proof. exact gen_parse_content_type_eq. Qed.
Print Assumptions C08_generated_parse_content_type_is_model.

(* FieldStorageParser.parse for every header mapping, outer boundary, limit
   (None or an int) and any other attributes, over the three readers, the
   encoder of the boundary parameter and int(): the one-piece form
   parse_spec of proofs/FsParseGenEq.v (which attributes of the field and of
   the parser are assigned from what, Content-Length -> clen with
   ValueError -> -1, `if self.limit is None and clen >= 0`, the three-way
   dispatch) *)
Theorem C08_generated_parse_is_spec :
  forall (St : Type) (E : list Z -> list Z) (INT : list Z -> option Z)
         (RU RM RS : pv -> St -> nat -> res (pv * pv * pv * St))
         (hs : list (list Z * list Z)) (ob : bytes) (kbv sp : pv)
         (limit : option Z) (enc errs mnf sep cb br done fn0 ib0 len0 : pv)
         (s : St) (fuel : nat),
    gen_parse St parse_header E INT RU RM RS (enc_hdrs hs) (PBytes ob) kbv sp
      (inj_lim limit) enc errs mnf sep cb br done fn0 ib0 len0 s fuel
    = parse_spec St E INT RU RM RS hs ob kbv sp limit enc errs mnf sep cb br
        done ib0 s fuel.
Proof. exact gen_parse_eq. Qed.
Print Assumptions C08_generated_parse_is_spec.

(* ... for the parser of one part (no Content-Length left, nothing read yet,
   read_single = read_lines_to_outerboundary of the model, the two part
   types the model does not follow reported as such) it is the model's
   parse_part: name and filename from Content-Disposition, the type, the
   unchanged limit, the same dispatch *)
Theorem C08_generated_parse_part_is_model :
  forall (St : Type) (rl : Z -> St -> bytes * St) (E : list Z -> list Z)
         (INT : list Z -> option Z)
         (RU RM RS : pv -> St -> nat -> res (pv * pv * pv * St))
         (hs : list (list Z * list Z)) (ob : bytes) (plimit : option Z)
         (kbv sp enc errs mnf sep cb : pv) (fuel : nat),
    hdr_get hs k_clen = None ->
    (forall self s, RU self s fuel = unmodelled w_urlencoded_part) ->
    (forall self s, RM self s fuel = unmodelled w_nested_multipart) ->
    (forall fn ib s,
        RS (PTuple [enc_hdrs hs; PBytes ob; kbv; sp; inj_lim plimit; enc;
                    errs; mnf; sep; cb; PInt 0; PInt 0; inj_name fn; ib;
                    PInt (-1)]) s fuel
        = single_model St rl ob plimit fuel s) ->
    forall (ib0 : pv) (fn0 len0 : pv) (s : St),
      part_view
        (gen_parse St parse_header E INT RU RM RS (enc_hdrs hs) (PBytes ob)
           kbv sp (inj_lim plimit) enc errs mnf sep cb (PInt 0) (PInt 0) fn0
           ib0 len0 s fuel)
      = inj_out (inj_part St) (parse_part St rl 65536 fuel hs ob plimit s).
Proof.
  intros. rewrite gen_parse_eq. apply parse_spec_part; assumption.
Qed.
Print Assumptions C08_generated_parse_part_is_model.

(* ... and for the top-level parser as the constructor leaves it, with the
   generated read_multi of gen/MultiGen.v as its multipart reader, it is the
   model's parse (field.list and the input object), whenever the model finds
   the first delimiter line within its fuel *)
Theorem C08_generated_parse_is_model :
  forall (St : Type) (rl : Z -> St -> bytes * St) (INT : list Z -> option Z)
         (PARSE : nat -> pv -> St -> res (pv * pv * pv * St))
         (RU RS : pv -> St -> nat -> res (pv * pv * pv * St))
         (hs : list (list Z * list Z)) (kbv sp enc errs sep cb : pv)
         (fuel : nat),
    (forall hdrs plimit mnf s,
        PARSE fuel
          (PTuple [enc_hdrs hdrs; PBytes (top_ib hs); kbv; sp; inj_lim plimit;
                   enc; errs; inj_lim mnf; sep; cb]) s
        = inj_out (inj_part St)
            (parse_part St rl 65536 fuel hdrs (top_ib hs) plimit s)) ->
    (forall self s, RU self s fuel = unmodelled w_urlencoded) ->
    (forall self s, RS self s fuel = unmodelled w_single_at_top) ->
    forall s : St,
      skip_to_boundary St rl fuel (dashb (top_ib hs)) 0 s <> None ->
      top_view
        (gen_parse St parse_header enc_model INT RU
           (RM_gen St rl PARSE) RS (enc_hdrs hs) (PBytes []) kbv sp PNone enc
           errs PNone sep cb (PInt 0) (PInt 0) PNone (PBytes []) (PInt (-1))
           s fuel)
      = inj_out (inj_fields St)
          (parse St rl 65536 fuel (hdr_get hs k_ctype)
             (clen_of INT hs) s).
Proof. exact gen_parse_top_is_model. Qed.
Print Assumptions C08_generated_parse_is_model.

(* FieldStorageParser.__init__: the ten arguments are stored as they come,
   bytes_read = 0, done = 0, filename = None, innerboundary = b"",
   length = -1 (what the two theorems above start from), a TextIOWrapper is
   replaced by its buffer; the defaults of the signature *)
Theorem C08_generated_parser_init_is_model :
  forall (St : Type) (IS_TEXTIO : St -> bool) (BUFFER : St -> St) (s : St)
         (h ob kbv sp lim enc errs mnf sep cb : pv),
    gen_init St IS_TEXTIO BUFFER s h ob kbv sp lim enc errs mnf sep cb
    = Py.Ok (PTuple [h; ob; kbv; sp; lim; enc; errs; mnf; sep; cb;
                     PInt 0; PInt 0; PNone; PBytes []; PInt (-1)],
             if IS_TEXTIO s then BUFFER s else s).
Proof. exact gen_init_eq. Qed.
Print Assumptions C08_generated_parser_init_is_model.

Theorem C08_generated_parser_init_defaults :
  gen_init_defaults
  = [PNone; PBytes []; PInt 0; PInt 0; PNone; PStr [117; 116; 102; 45; 56];
     PStr [114; 101; 112; 108; 97; 99; 101]; PNone; PStr [38]; PNone].
Proof. exact gen_init_defaults_eq. Qed.
Print Assumptions C08_generated_parser_init_defaults.

(* constructor (arguments in the order read_multi hands them over) + parse()
   of a part = the model's parse_part: the assumption PARSE_spec of
   C08_generated_part_loop_is_model / C08_generated_read_multi_is_model,
   discharged by generated code up to the attributes the model keeps *)
Theorem C08_generated_subparser_is_model :
  forall (St : Type) (IS_TEXTIO : St -> bool) (BUFFER : St -> St)
         (rl : Z -> St -> bytes * St) (E : list Z -> list Z)
         (INT : list Z -> option Z)
         (RU RM RS : pv -> St -> nat -> res (pv * pv * pv * St))
         (hs : list (list Z * list Z)) (ob : bytes) (plimit : option Z)
         (kbv sp enc errs mnf sep cb : pv) (fuel : nat) (s : St),
    IS_TEXTIO s = false ->
    hdr_get hs k_clen = None ->
    (forall self s, RU self s fuel = unmodelled w_urlencoded_part) ->
    (forall self s, RM self s fuel = unmodelled w_nested_multipart) ->
    (forall fn ib s,
        RS (PTuple [enc_hdrs hs; PBytes ob; kbv; sp; inj_lim plimit; enc;
                    errs; mnf; sep; cb; PInt 0; PInt 0; inj_name fn; ib;
                    PInt (-1)]) s fuel
        = single_model St rl ob plimit fuel s) ->
    part_view
      (PARSE_gen St IS_TEXTIO BUFFER E INT RU RM RS fuel
         (PTuple [enc_hdrs hs; PBytes ob; kbv; sp; inj_lim plimit; enc; errs;
                  mnf; sep; cb]) s)
    = inj_out (inj_part St) (parse_part St rl 65536 fuel hs ob plimit s).
Proof. exact PARSE_gen_is_parse_part. Qed.
Print Assumptions C08_generated_subparser_is_model.

(* FieldStorageParser.read_lines inside a multipart body (outer boundary not
   empty): make_file() if filename and file_callback, else a fresh BytesIO
   (filename) or StringIO -- the file model's [start] -- then the generated
   read_lines_to_outerboundary, i.e. the model's rlob; read_lines_to_eof
   (no outer boundary) stays a parameter *)
Theorem C08_generated_read_lines_is_model :
  forall (St : Type) (rl : Z -> St -> bytes * St) (D : list Z -> list Z)
         (READ_EOF : pv -> pv -> St -> nat -> res (pv * pv * pv * St))
         (hs kbv sp mnf sep ib : pv) (fn : option (list Z))
         (cb enc errs : pv) (ob : bytes) (limit : option Z) (B0 : Z)
         (fuel : nat),
    ob <> [] ->
    forall (len : pv) (s : St),
      gen_read_lines St rl D READ_EOF hs (PBytes ob) kbv sp (inj_lim limit)
        enc errs mnf sep cb (PInt B0) (PInt 0) (inj_name fn) ib len s fuel
      = unpack
          (inj_res St D fn enc B0
             (rlob St rl 65536 fuel (dashb ob) (dashb ob ++ [45; 45]) limit
                   [] [] true 0 s) (start fn cb)).
Proof. exact gen_read_lines_eq. Qed.
Print Assumptions C08_generated_read_lines_is_model.

(* ... and outside a multipart body (no outer boundary): the same file,
   handed to read_lines_to_eof (a parameter) *)
Theorem C08_generated_read_lines_eof_is_start :
  forall (St : Type) (rl : Z -> St -> bytes * St) (D : list Z -> list Z)
         (READ_EOF : pv -> pv -> St -> nat -> res (pv * pv * pv * St))
         (hs kbv sp mnf sep ib : pv) (fn : option (list Z))
         (cb enc errs : pv) (limit : option Z) (fuel : nat)
         (len br done : pv) (s : St),
    gen_read_lines St rl D READ_EOF hs (PBytes []) kbv sp (inj_lim limit) enc
      errs mnf sep cb br done (inj_name fn) ib len s fuel
    = READ_EOF
        (PTuple [hs; PBytes []; kbv; sp; inj_lim limit; enc; errs; mnf; sep;
                 cb; br; done; inj_name fn; ib; len])
        (inj_file D fn enc (start fn cb)) s fuel.
Proof. exact gen_read_lines_eof_eq. Qed.
Print Assumptions C08_generated_read_lines_eof_is_start.

(* FieldStorageParser.read_single for every int self.length.  Without a
   declared length (a part: self.length = -1): read_lines, file.seek(0); the
   returned file is the one _write leaves after the model's pieces on
   [start], self.done and self.bytes_read are the model's (the step
   "read_single: self.length = -1 -> read_lines ->
   read_lines_to_outerboundary" of the model's parse_part).  With one
   (self.length >= 0): read_binary, skip_lines on what read_binary left,
   file.seek(0) -- both stay parameters *)
Theorem C08_generated_read_single_is_model :
  forall (St : Type) (rl : Z -> St -> bytes * St) (D : list Z -> list Z)
         (READ_BINARY SKIP_LINES : pv -> St -> nat -> res (pv * pv * pv * St))
         (READ_EOF : pv -> pv -> St -> nat -> res (pv * pv * pv * St))
         (hs kbv sp mnf sep ib : pv) (fn : option (list Z))
         (cb enc errs : pv) (ob : bytes) (limit : option Z) (B0 : Z)
         (fuel : nat),
    ob <> [] ->
    forall (L : Z) (s : St),
      gen_read_single St rl D READ_BINARY SKIP_LINES READ_EOF hs (PBytes ob)
        kbv sp (inj_lim limit) enc errs mnf sep cb (PInt B0) (PInt 0)
        (inj_name fn) ib (PInt L) s fuel
      = if 0 <=? L then
          pr <- READ_BINARY
                  (self_of hs kbv sp mnf sep ib fn cb enc errs ob limit
                     (PInt B0) (PInt 0) L) s fuel ;;
          let '(f, d, n, s1) := pr in
          pr2 <- SKIP_LINES
                   (self_of hs kbv sp mnf sep ib fn cb enc errs ob limit n d L)
                   s1 fuel ;;
          let '(_, d2, n2, s2) := pr2 in
          f' <- pseek f (PInt 0) ;;
          Py.Ok (f', d2, n2, s2)
        else
          match rlob St rl 65536 fuel (dashb ob) (dashb ob ++ [45; 45]) limit
                     [] [] true 0 s with
          | RFuel => out_of_fuel
          | RDone ps d n s' =>
              Py.Ok (inj_file D fn enc
                       (fold_left (mwrite D fn) ps (start fn cb)),
                     PInt d, PInt (B0 + n), s')
          end.
Proof. exact gen_read_single_eq. Qed.
Print Assumptions C08_generated_read_single_is_model.
