From Coq Require Import ZArith List Bool.
Require Import PW.lib.Val PW.model.Multipart PW.proofs.MultipartProofs.
Import ListNotations.
Open Scope Z_scope.

Theorem C08_placeholder : forall l, rv l = rev l.
Proof. exact rv_rev. Qed.
Print Assumptions C08_placeholder.
