(* C16  Auth tokens are valid for at least one and at most two timeout periods.
   Statements only; every proof is [exact <lemma of proofs/TokenProofs.v>]. *)
From Coq Require Import ZArith List Bool.
Require Import PW.lib.Val PW.model.Token PW.proofs.TokenProofs.
Import ListNotations.
Open Scope Z_scope.

(* H is the hash (SHA-256 hexdigest); the "only if" directions need it to be
   injective on the formatted texts (collision resistance, an assumption). *)
Definition injective (H : list Z -> list Z) := forall a b, H a = H b -> a = b.

(* in between: verifies exactly when the T-aligned windows are equal or adjacent *)
Theorem C16_verify_iff_windows :
  forall H, injective H -> forall s c T t0 t1,
    0 < T -> 0 <= t0 -> 0 <= t1 ->
    (verify H s c s c (Some T) t0 t1 = Some true <->
     t1 / (T * usec) = t0 / (T * usec) \/ t1 / (T * usec) = t0 / (T * usec) + 1).
Proof. exact verify_iff_windows. Qed.
Print Assumptions C16_verify_iff_windows.

(* t1 - t0 < T : always verifies *)
Theorem C16_fresh_verifies :
  forall H, injective H -> forall s c T t0 t1,
    0 < T -> 0 <= t0 <= t1 -> t1 - t0 < T * usec ->
    verify H s c s c (Some T) t0 t1 = Some true.
Proof. exact fresh_verifies. Qed.
Print Assumptions C16_fresh_verifies.

(* t1 - t0 >= 2T : never verifies *)
Theorem C16_old_rejected :
  forall H, injective H -> forall s c T t0 t1,
    0 < T -> 0 <= t0 <= t1 -> 2 * T * usec <= t1 - t0 ->
    verify H s c s c (Some T) t0 t1 = Some false.
Proof. exact old_rejected. Qed.
Print Assumptions C16_old_rejected.

(* None or 0: tokens do not expire *)
Theorem C16_no_timeout_never_expires :
  forall H s c timeout t0 t1,
    has_timeout timeout = false ->
    verify H s c s c timeout t0 t1 = Some true.
Proof. exact no_timeout_never_expires. Qed.
Print Assumptions C16_no_timeout_never_expires.

(* ... and never cause an error; for every timeout value (None = the
   ZeroDivisionError outcome of the model) *)
Theorem C16_never_raises :
  forall H s c s' c' timeout t0 t1,
    verify H s c s' c' timeout t0 t1 <> None.
Proof. exact token_never_raises. Qed.
Print Assumptions C16_never_raises.

(* different secret or client: rejected exactly when the concatenated texts
   differ.  The full statement "never verifies under a different secret or
   client" is refuted below (known finding: the text is an unseparated
   concatenation). *)
Theorem C16_other_pair_partial :
  forall H, injective H -> forall s c s' c' t0 t1,
    verify H s c s' c' None t0 t1 = Some true <-> s ++ c = s' ++ c'.
Proof. exact other_pair_no_timeout. Qed.
Print Assumptions C16_other_pair_partial.

Theorem C16_other_secret_or_client_rejected_refuted :
  exists s c s' c', (s <> s' \/ c <> c') /\
    verify idH s c s' c' None 0 0 = Some true.
Proof. exact other_secret_or_client_rejected_refuted. Qed.
Print Assumptions C16_other_secret_or_client_rejected_refuted.

(* ---- translator tie: the model used above is equal to the definitions
   generated from the current poorwsgi/session.py by harness/py2v.py
   (gen/TokenGen.v is rewritten on every check run), over the Python
   semantics of lib/Py.v; time is the exact rational [PRat t usec] *)
Require Import PW.lib.Py PW.gen.TokenGen PW.proofs.TokenGenEq.

Theorem C16_generated_get_token_is_model :
  forall H s c timeout e t,
    0 <= t -> (forall T, timeout = Some T -> 0 <= T) ->
    gen_get_token H (PStr s) (PStr c) (inj_to timeout) (PInt e) (clock t)
    = inj_ol (get_token H s c timeout e t).
Proof. exact gen_get_token_eq. Qed.
Print Assumptions C16_generated_get_token_is_model.

Theorem C16_generated_check_token_is_model :
  forall H tok s c timeout t,
    0 <= t -> (forall T, timeout = Some T -> 0 <= T) ->
    gen_check_token H (PStr tok) (PStr s) (PStr c) (inj_to timeout) (clock t)
    = inj_ob (check_token H tok s c timeout t).
Proof. exact gen_check_token_eq. Qed.
Print Assumptions C16_generated_check_token_is_model.
