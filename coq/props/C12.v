(* C12  Static serving never leaves the document root.
   Statements only; every proof is [exact <lemma of proofs/StaticPathProofs.v>].
   Strings are code-point lists: '/' = 47, '.' = 46, '~' = 126.
   [fs] maps a path string to what exists/isfile/isdir/access report for it,
   [listdir] is os.listdir: both are universally quantified (any file system).
   [p] is req.path: ANY list of code points (NUL, no leading slash, repeated
   slashes, non-ASCII ...); [root] is ANY string. *)
From Coq Require Import ZArith List Bool String.
Require Import PW.lib.Val PW.model.StaticPath PW.proofs.StaticPathProofs.
Import ListNotations.
Open Scope list_scope.
Open Scope Z_scope.

(* a segment that names an entry of the directory it is looked up in *)
Definition clean_segment (s : list Z) : Prop :=
  s <> [] /\ s <> [46] /\ s <> [46; 46] /\ ~ In 47 s.

(* normpath("/" + path.lstrip("/")) is "/" followed by clean segments joined
   by "/" (and these are exactly its "/"-separated segments) *)
Theorem C12_normpath_abs_clean :
  forall p, exists segs,
    Forall clean_segment segs /\
    normpath (47 :: lstrip_slash p) = 47 :: join_slash segs /\
    (segs <> [] -> split_slash (join_slash segs) = segs).
Proof. exact normpath_abs_clean. Qed.
Print Assumptions C12_normpath_abs_clean.

(* ... and it starts with exactly one '/' *)
Theorem C12_normpath_abs_one_slash :
  forall p, exists rest,
    normpath (47 :: lstrip_slash p) = 47 :: rest /\ starts_slash rest = false.
Proof. exact normpath_abs_one_slash. Qed.
Print Assumptions C12_normpath_abs_one_slash.

(* the name handed to the file system is root ++ "/" ++ clean segments:
   it is root ++ "/" itself or has root ++ "/" as a proper prefix with no
   "", "." or ".." segment after it.  No hypothesis on root or p. *)
Theorem C12_confined :
  forall root p, exists segs,
    Forall clean_segment segs /\
    resolved root p = root ++ 47 :: join_slash segs /\
    (segs <> [] -> split_slash (join_slash segs) = segs).
Proof. exact confined. Qed.
Print Assumptions C12_confined.

(* a file is answered only for a non-empty root and a GET/HEAD method
   number; it is the regular readable file at exactly the resolved name *)
Theorem C12_file_only_resolved :
  forall fs listdir root index debug mn p f,
    serve fs listdir root index debug mn p = OFile f ->
    root <> [] /\ get_or_head mn = true /\
    f = resolved root p /\ fs f = File true.
Proof. exact file_only_resolved. Qed.
Print Assumptions C12_file_only_resolved.

(* both together: the only file ever opened lies lexically inside the root *)
Theorem C12_served_file_confined :
  forall fs listdir root index debug mn p f,
    serve fs listdir root index debug mn p = OFile f ->
    get_or_head mn = true /\ fs f = File true /\
    exists segs, Forall clean_segment segs /\
                 f = root ++ 47 :: join_slash segs /\
                 (segs <> [] -> split_slash (join_slash segs) = segs).
Proof. exact served_file_confined. Qed.
Print Assumptions C12_served_file_confined.

(* a listing is produced only with indexing on, GET/HEAD, for the readable
   directory at exactly the resolved name *)
Theorem C12_listed_dir_confined :
  forall fs listdir root index debug mn p d names,
    serve fs listdir root index debug mn p = OListing d names ->
    get_or_head mn = true /\ index = true /\ fs d = Dir true /\
    d = resolved root p.
Proof. exact listed_dir_confined. Qed.
Print Assumptions C12_listed_dir_confined.

(* method numbers without the GET or HEAD bit never reach the file branch:
   the answer is the debug page / default handler, whatever the file system *)
Theorem C12_only_get_head :
  forall fs listdir root index debug mn p,
    get_or_head mn = false ->
    serve fs listdir root index debug mn p = fallthrough debug p.
Proof. exact only_get_head. Qed.
Print Assumptions C12_only_get_head.

(* in terms of the method token: the gate is open exactly for GET, HEAD and
   tokens outside the methods table (which Request.method_number maps to GET
   by design, see C02) *)
Theorem C12_method_gate_names :
  forall m,
    get_or_head (method_number m) = true <->
    m = s2l "GET" \/ m = s2l "HEAD" \/ lookup m methods = None.
Proof. exact method_gate_names. Qed.
Print Assumptions C12_method_gate_names.

Theorem C12_known_other_methods_fall_through :
  forall fs listdir env_root attr_root env_index attr_index debug m n p,
    lookup m methods = Some n -> n <> 1 -> n <> 2 ->
    serve_request fs listdir env_root attr_root env_index attr_index debug m p
    = fallthrough debug p.
Proof. exact known_other_methods_fall_through. Qed.
Print Assumptions C12_known_other_methods_fall_through.

(* a directory: the listing when indexing is on and it is readable, 403
   otherwise *)
Theorem C12_dir_listing_or_403 :
  forall fs listdir root index debug mn p r,
    root <> [] -> get_or_head mn = true ->
    fs (resolved root p) = Dir r ->
    serve fs listdir root index debug mn p =
      if index && r then directory_index fs listdir root (resolved root p)
      else OForbidden.
Proof. exact dir_listing_or_403. Qed.
Print Assumptions C12_dir_listing_or_403.

(* unreadable files and non-regular non-directories: 403 *)
Theorem C12_not_file_not_dir_403 :
  forall fs listdir root index debug mn p,
    root <> [] -> get_or_head mn = true ->
    (fs (resolved root p) = File false \/
     exists r, fs (resolved root p) = Other r) ->
    serve fs listdir root index debug mn p = OForbidden.
Proof. exact not_file_not_dir_403. Qed.
Print Assumptions C12_not_file_not_dir_403.

(* nothing at the resolved name: debug page / default handler (404) *)
Theorem C12_missing_falls_through :
  forall fs listdir root index debug mn p,
    fs (resolved root p) = Missing ->
    serve fs listdir root index debug mn p = fallthrough debug p.
Proof. exact missing_falls_through. Qed.
Print Assumptions C12_missing_falls_through.

(* visible entry of directory d: not a dot file (".." excepted), not a "~"
   backup, readable; its row shows a trailing "/" for directories *)
Definition visible_entry (fs : list Z -> node) (d item : list Z) : Prop :=
  (hd 0 item <> 46 \/ item = [46; 46]) /\
  last item 0 <> 126 /\
  n_readable (fs (d ++ 47 :: item)) = true.
Definition row_name (fs : list Z -> node) (d item : list Z) : list Z :=
  item ++ (if n_isdir (fs (d ++ 47 :: item)) then [47] else []).

(* the listing never fails and its rows are exactly the visible entries of
   the resolved directory: os.listdir's names, plus ".." unless the
   directory is the document root itself.  (os.listdir never returns an
   empty name: the only hypothesis.) *)
Theorem C12_listing_visible_entries :
  forall fs listdir root p,
    let d := resolved root p in
    Forall (fun n => n <> []) (listdir d) ->
    n_isdir (fs d) = true ->
    exists r, directory_index fs listdir root d = OListing d r /\
      forall x, In x r <->
        exists item,
          (In item (listdir d) \/ (item = [46; 46] /\ rel_path p <> [47])) /\
          visible_entry fs d item /\ x = row_name fs d item.
Proof. exact listing_visible_entries. Qed.
Print Assumptions C12_listing_visible_entries.

(* ------------------------------------------------------------------------
   Translator tie (T-tie).  gen/StaticGen.v is regenerated on every run by
   harness/py2v_static.py from the current source text of
     poorwsgi/wsgi.py     Application.handler_from_table, from the statement
                          after the user-route lookups to the end
     poorwsgi/request.py  SimpleRequest.document_root, document_index
     poorwsgi/results.py  directory_index
   and proved equal to the hand model above (proofs/StaticGenEq.v), for all
   paths, roots, environments, file systems and directory contents.
   [environ] is the request's poor_environ as a lookup function; [lower] is
   str.lower, of which only [lower_on_spec] is assumed (which strings it
   maps to "on"; derived from the per-code-point fact the harness checks
   over all of Unicode by C12_lower_on_from_code_points). *)
Require Import PW.lib.PyStatic PW.gen.StaticGen PW.proofs.StaticGenEq.

(* req.document_root and req.method_number & (METHOD_HEAD | METHOD_GET) *)
Theorem C12_generated_gate_is_model :
  forall root mn, gen_gate root mn = negb (is_nil root) && get_or_head mn.
Proof. exact gen_gate_is_model. Qed.
Print Assumptions C12_generated_gate_is_model.

(* "%s%s" % (req.document_root,
             path.normpath("/%s" % req.path.lstrip("/"))) *)
Theorem C12_generated_rfile_is_model :
  forall root p, gen_rfile root p = resolved root p.
Proof. exact gen_rfile_is_model. Qed.
Print Assumptions C12_generated_rfile_is_model.

Theorem C12_generated_document_root_is_model :
  forall environ app_root,
    gen_document_root environ app_root =
    document_root (environ (s2l "poor_DocumentRoot")) app_root.
Proof. exact gen_document_root_is_model. Qed.
Print Assumptions C12_generated_document_root_is_model.

Theorem C12_generated_document_index_is_model :
  forall lower environ app_index,
    lower_on_spec lower ->
    gen_document_index lower environ app_index =
    document_index (environ (s2l "poor_DocumentIndex")) app_index.
Proof. exact gen_document_index_is_model. Qed.
Print Assumptions C12_generated_document_index_is_model.

Theorem C12_lower_on_from_code_points :
  forall lower1 : Z -> list Z,
    (forall c, lower1 c <> []) ->
    (forall c, In 111 (lower1 c) \/ In 110 (lower1 c) ->
               c = 79 \/ c = 111 \/ c = 78 \/ c = 110) ->
    lower1 79 = [111] -> lower1 111 = [111] ->
    lower1 78 = [110] -> lower1 110 = [110] ->
    lower_on_spec (flat_map lower1).
Proof. exact charwise_lower_on. Qed.
Print Assumptions C12_lower_on_from_code_points.

(* directory_index: the isdir test, os.listdir, the ".." entry below the
   root only, sort, the filter loop, the "/" suffix, IndexError *)
Theorem C12_generated_directory_index_is_model :
  forall fs listdir root d,
    gen_directory_index fs listdir root d = directory_index fs listdir root d.
Proof. exact gen_directory_index_is_model. Qed.
Print Assumptions C12_generated_directory_index_is_model.

(* the whole block: gate, file name, the file-system tests on that name,
   what is answered in each case *)
Theorem C12_generated_serve_is_model :
  forall fs listdir root index debug mn p,
    gen_serve fs listdir root index debug mn p =
    serve fs listdir root index debug mn p.
Proof. exact gen_serve_is_model. Qed.
Print Assumptions C12_generated_serve_is_model.

Theorem C12_generated_serve_request_is_model :
  forall lower fs listdir environ app_root app_index debug method p,
    lower_on_spec lower ->
    gen_serve_request lower fs listdir environ app_root app_index debug
                      method p =
    serve_request fs listdir (environ (s2l "poor_DocumentRoot")) app_root
                  (environ (s2l "poor_DocumentIndex")) app_index
                  debug method p.
Proof. exact gen_serve_request_is_model. Qed.
Print Assumptions C12_generated_serve_request_is_model.

(* confinement stated on the generated code: a file answered by the
   generated block is the generated file name, root ++ "/" ++ rest with no
   further leading "/" *)
Theorem C12_generated_served_file_confined :
  forall fs listdir root index debug mn p f,
    gen_serve fs listdir root index debug mn p = OFile f ->
    f = gen_rfile root p /\
    exists rest, f = root ++ 47 :: rest /\ starts_slash rest = false.
Proof. exact gen_served_file_confined. Qed.
Print Assumptions C12_generated_served_file_confined.

(* ---- the method the GET/HEAD gate tests is the one the server reports:
   the generated census of keyed lookups (harness/py2v_inputs.py ->
   gen/InputsGen.v) shows REQUEST_METHOD as the only key SimpleRequest.method
   and method_number consult, and the document root / index settings as read
   from their two modelled keys only. *)
From Coq Require Import String.
Local Open Scope string_scope.
Local Open Scope list_scope.
Require Import PW.model.Inputs PW.gen.InputsGen.

Theorem C12_generated_gate_and_settings_inputs :
  forall r, In r keyed_reads ->
    existsb (String.eqb (kr_fun r))
      ["request.SimpleRequest.method"; "request.SimpleRequest.method_number";
       "request.SimpleRequest.document_root";
       "request.SimpleRequest.document_index";
       "wsgi.Application.handler_from_table"] = true ->
    In r [("request.SimpleRequest.method", "self.__environ", "get",
           "REQUEST_METHOD");
          ("request.SimpleRequest.method_number", "methods", "[]", "GET");
          ("request.SimpleRequest.document_root", "self.__poor_environ",
           "get", "poor_DocumentRoot");
          ("request.SimpleRequest.document_index", "self.__poor_environ",
           "get", "poor_DocumentIndex")].
Proof. apply reads_ok_spec. vm_compute. reflexivity. Qed.
Print Assumptions C12_generated_gate_and_settings_inputs.
