(* C13  Session cookies restore the stored data and reject foreign ones.
   Statements only; every proof is [exact <lemma of proofs/SessionProofs.v>].
   K = sha512(secret).digest(); C = the codecs (json, compress object, base64)
   as functions into [option] (None = raised); their laws are the hypotheses
   [codec_laws] / [codec_total] / [json_roundtrips] of model/Session.v. *)
From Coq Require Import ZArith List Bool String.
Require Import PW.lib.Val PW.model.Session PW.proofs.SessionProofs.
Import ListNotations.
Open Scope list_scope.
Open Scope Z_scope.

(* the keyed XOR mask is its own inverse, for every key stream and text *)
Theorem C13_hidden_involutive :
  forall K x, hidden K (hidden K x) = x.
Proof. exact hidden_involutive. Qed.
Print Assumptions C13_hidden_involutive.

(* ... and maps bytes to bytes (bytearray.append cannot raise) *)
Theorem C13_hidden_bytes :
  forall K x, Forall byte K -> Forall byte x -> Forall byte (hidden K x).
Proof. exact hidden_bytes. Qed.
Print Assumptions C13_hidden_bytes.

(* what write() stores, load() restores: every dictionary on which json
   round-trips, every key, every compress/base64 satisfying the laws *)
Theorem C13_session_roundtrip :
  forall K J (C : codec J), codec_laws C -> forall d,
    codec_total C -> json_roundtrips C d -> is_dict C d = true ->
    exists raw, write_value K J C d = Some raw /\
                load_value K J C raw = Ok (Restored d).
Proof. exact session_roundtrip. Qed.
Print Assumptions C13_session_roundtrip.

(* on the objects: the value header() emits from any state of one session
   restores that session's data in any state of another one *)
Theorem C13_cookie_roundtrip :
  forall K J (C : codec J), codec_laws C ->
  forall cfg (st st' : state J) raw out (st2 : state J),
    json_roundtrips C (s_data J st) -> is_dict C (s_data J st) = true ->
    header K J C cfg st = Ok (st', (raw, out)) ->
    load K J C st2 (Some raw) =
      (mkstate J (s_expires J st2) (s_max_age J st2) (s_data J st)
               (s_m J st2), LLoaded).
Proof. exact cookie_roundtrip. Qed.
Print Assumptions C13_cookie_roundtrip.

(* after every history of write/load/header/set-data operations (no destroy)
   the emitted cookie carries HttpOnly and exactly the configured Path,
   Domain, Secure, SameSite, Expires and Max-Age *)
Theorem C13_attributes_as_configured :
  forall K J (C : codec J) cfg d h st' raw out,
    existsb (is_destroy J) h = false ->
    header K J C cfg (run K J C cfg h (init J cfg d)) = Ok (st', (raw, out)) ->
    attr AHttpOnly out = Some AFlag /\
    attr APath out =
      (if nonempty (c_path cfg) then Some (AStr (c_path cfg)) else None) /\
    attr ADomain out =
      (if nonempty (c_domain cfg) then Some (AStr (c_domain cfg)) else None) /\
    attr ASecure out = (if c_secure cfg then Some AFlag else None) /\
    attr ASameSite out =
      (if nonempty (c_same_site cfg) then Some (AStr (c_same_site cfg))
       else None) /\
    attr AExpires out =
      (if c_expires cfg =? 0 then None else Some (AInt (c_expires cfg))) /\
    attr AMaxAge out =
      (match c_max_age cfg with Some a => Some (AInt a) | None => None end).
Proof. exact attributes_as_configured. Qed.
Print Assumptions C13_attributes_as_configured.

(* every history that contains destroy() anywhere, whatever follows it:
   the header emitted afterwards has expires = now-1 and, when Max-Age was
   configured, Max-Age=-1 (and none otherwise) *)
Theorem C13_destroyed_is_expired :
  forall K J (C : codec J) cfg d h st' raw out,
    In Destroy h ->
    header K J C cfg (run K J C cfg h (init J cfg d)) = Ok (st', (raw, out)) ->
    attr AExpires out = Some (AInt (-1)) /\
    attr AMaxAge out =
      (match c_max_age cfg with Some _ => Some (AInt (-1)) | None => None end) /\
    attr AHttpOnly out = Some AFlag /\
    attr ASecure out = (if c_secure cfg then Some AFlag else None).
Proof. exact destroyed_is_expired. Qed.
Print Assumptions C13_destroyed_is_expired.

(* for every string: load() restores something, keeps the data (empty
   value) or raises SessionError; no other exception *)
Theorem C13_load_only_session_error :
  forall K J (C : codec J) raw,
    (exists l, load_value K J C raw = Ok l) \/
    load_value K J C raw = Raised SessionError.
Proof. exact load_only_session_error. Qed.
Print Assumptions C13_load_only_session_error.

Theorem C13_load_op_only_session_error :
  forall K J (C : codec J) (st : state J) c,
    snd (load K J C st c) = LSkipped \/ snd (load K J C st c) = LLoaded \/
    snd (load K J C st c) = LRaised SessionError.
Proof. exact load_op_only_session_error. Qed.
Print Assumptions C13_load_op_only_session_error.

(* key streams that differ at a position the text reaches mask it
   differently *)
Theorem C13_foreign_key_bytes_differ :
  forall K1 K2 x j,
    0 <= j < Z.of_nat (List.length x) ->
    key_at K1 j <> key_at K2 j ->
    hidden K1 x <> hidden K2 x.
Proof. exact foreign_key_bytes_differ. Qed.
Print Assumptions C13_foreign_key_bytes_differ.

(* the same for two 64-byte digests differing at byte j *)
Theorem C13_foreign_digest_bytes_differ :
  forall K1 K2 x j,
    List.length K1 = 64%nat -> List.length K2 = 64%nat ->
    0 <= j < 64 -> j < Z.of_nat (List.length x) ->
    nth (Z.to_nat j) K1 0 <> nth (Z.to_nat j) K2 0 ->
    hidden K1 x <> hidden K2 x.
Proof. exact foreign_digest_bytes_differ. Qed.
Print Assumptions C13_foreign_digest_bytes_differ.

(* Full statement (not proved, it depends on SHA-512 outputs and on json):
     forall secrets s1 <> s2 and dictionaries d with at least 16 serialised
     bytes, load under sha512(s2) of the value written under sha512(s1)
     is not [Ok (Restored d)];  likewise for every proper prefix of a value
     and for arbitrary text.
   Proved part: the bytes handed to json.loads under the foreign key differ
   from the serialised text whenever the two digests differ at a position
   the text reaches.  The rest is checked on the implementation (monitor). *)
Theorem C13_foreign_secret_never_restores_partial :
  forall K1 K2 t j,
    0 <= j < Z.of_nat (List.length t) ->
    key_at K1 j <> key_at K2 j ->
    hidden K2 (hidden K1 t) <> t.
Proof. exact foreign_unmask_differs. Qed.
Print Assumptions C13_foreign_secret_never_restores_partial.

(* ---- translator tie: the definition generated from the current source of
   session.hidden (gen/HiddenGen.v, by harness/py2v_hidden.py) is the model.
   H = sha512(..).digest(), E = str.encode("utf-8") (None: lone surrogate);
   K is the key the Python computes from the password (bytes are hashed as
   they are, str is encoded first), x the bytes of the text. *)
Require Import PW.lib.Py PW.lib.PyBytes PW.gen.HiddenGen PW.proofs.HiddenGenEq.

Theorem C13_generated_hidden_is_model :
  forall (H : list Z -> list Z) (E : list Z -> option (list Z))
         (text passwd : pv) (K x : list Z),
    key_of H E passwd = Some K -> text_of E text = Some x ->
    K <> [] -> Forall byte K -> Forall byte x ->
    gen_hidden H E text passwd = Py.Ok (PBytes (hidden K x)).
Proof. exact gen_hidden_is_model. Qed.
Print Assumptions C13_generated_hidden_is_model.

(* ---- translator tie: the definitions generated from the current source of
   PoorSession.write / destroy / load / header (gen/SessionGen.v, by
   harness/py2v_session.py, semantics lib/PySession.v) are the model, for
   every key, codec, configuration, state and argument.  A method is run on
   (context, state) and yields (state afterwards, result or exception). *)
Require Import PW.lib.PySession PW.gen.SessionGen PW.proofs.SessionGenEq.

(* write(): the model's new state and the returned str; when a codec raises,
   that exception with the object untouched *)
Theorem C13_generated_write_is_model :
  forall K J (C : codec J) cfg (st : state J),
    gen_write (mkctx K C cfg) st =
    match Session.write K J C cfg st with
    | Session.Ok (st', raw) => (st', ROk (SStr raw))
    | Session.Raised _ => (st, RErr XOther)
    end.
Proof. exact gen_write_is_model. Qed.
Print Assumptions C13_generated_write_is_model.

(* destroy(): the model's state afterwards; returns None, never raises *)
Theorem C13_generated_destroy_is_model :
  forall K J (C : codec J) cfg (st : state J),
    gen_destroy (mkctx K C cfg) st = (Session.destroy J cfg st, ROk SNone).
Proof. exact gen_destroy_is_model. Qed.
Print Assumptions C13_generated_destroy_is_model.

(* load(cookies), for every value of the argument ([entry_of]: the cookie
   value under the session id of a SimpleCookie, None for a SimpleCookie
   without that name and for every other object): the model's state
   afterwards (self.data is assigned before the dictionary test) and what
   leaves the call, by the model's exception name ([left_by]: None = returned
   None; the two SessionError messages are in the generated term and are
   erased here, the model has no messages) *)
Theorem C13_generated_load_is_model :
  forall K J (C : codec J) cfg (st : state J) (cookies : sv J),
    fst (gen_load cookies (mkctx K C cfg) st) =
      fst (Session.load K J C st (entry_of cookies)) /\
    left_by (snd (gen_load cookies (mkctx K C cfg) st)) =
      left_by_model (snd (Session.load K J C st (entry_of cookies))).
Proof. exact gen_load_is_model. Qed.
Print Assumptions C13_generated_load_is_model.

(* header(headers), for headers None or a Headers / Response object
   ([headers_arg]; what add_header does to that object is outside the
   model): write() runs first; the model's state afterwards and the returned
   list [("Set-Cookie", text)] where the text carries the model's cookie
   value and rendered attributes ([header_pairs]); when write() raises, that
   exception with the object untouched *)
Theorem C13_generated_header_is_model :
  forall K J (C : codec J) cfg (st : state J) (h : sv J),
    headers_arg h ->
    gen_header h (mkctx K C cfg) st =
    match Session.header K J C cfg st with
    | Session.Ok (st', (raw, attrs)) => (st', ROk (header_pairs raw attrs))
    | Session.Raised _ => (st, RErr XOther)
    end.
Proof. exact gen_header_is_model. Qed.
Print Assumptions C13_generated_header_is_model.
