(* C19  Registering and removing handlers changes exactly what was asked.
   Statements only; every proof is [exact <lemma of proofs/RegistryProofs.v>].

   [exec init ops] / [trace init ops]: state of the modelled Application and
   outcomes of the calls after the call sequence [ops]; [sexec sinit ops] /
   [strace sinit ops]: the same for the declarative registry (a map
   (kind, key, method bit) -> handler, a filter map, two hook lists).
   Views are canonicalised by [lookup] / [filter_of]: the handler registered
   for (kind, key, method) -- empty inner tables (left behind by
   pop_http_state / pop_error_handler) and table order are not observed. *)
From Coq Require Import ZArith List Bool String.
Require Import PW.lib.Val PW.model.Registry PW.proofs.RegistryProofs.
Import ListNotations.
Open Scope string_scope.
Open Scope Z_scope.

(* every sequence of calls: views of the model = views of the specification
   (lookups, filters, both hook lists), and every call other than is_*
   returned / raised the same thing *)
Theorem C19_registry_refines :
  forall ops : list op,
    ((forall k key m,
        lookup (exec init ops) k key m = s_map (sexec sinit ops) k key m) /\
     (forall n, filter_of (exec init ops) n = s_filter (sexec sinit ops) n) /\
     a_before (exec init ops) = s_before (sexec sinit ops) /\
     a_after (exec init ops) = s_after (sexec sinit ops)) /\
    agree ops (trace init ops) (strace sinit ops).
Proof. exact registry_refines. Qed.
Print Assumptions C19_registry_refines.

(* full statement: forall ops, trace init ops = strace sinit ops  (all
   outcomes, is_route / is_regular_route answers included).  Proved under the
   restriction that every route registration names at least one known method;
   without it the statement is refuted below. *)
Theorem C19_registry_refines_queries_partial :
  forall ops : list op,
    forallb route_mask_ok ops = true ->
    trace init ops = strace sinit ops.
Proof. exact registry_refines_queries. Qed.
Print Assumptions C19_registry_refines_queries_partial.

(* full statement "outcomes agree for all sequences" is false of the model
   (and of the code): set_route(uri, f, 0) registers nothing, yet is_route(uri)
   answers True afterwards *)
Theorem C19_is_route_empty_mask_refuted :
  exists ops, trace init ops <> strace sinit ops /\
    (forall m, lookup (exec init ops) KRoute 1 m = None) /\
    nth 1 (trace init ops) Done = Answer true.
Proof. exact is_route_empty_mask_refuted. Qed.
Print Assumptions C19_is_route_empty_mask_refuted.

(* pop removes exactly the addressed (kind, key, method) entry, returns its
   handler and leaves every other entry, the filters and hooks unchanged;
   in any state *)
Theorem C19_pop_removes_exactly_one :
  forall a k key m h,
    (k = KDefault -> key = 0) -> lookup a k key m = Some h ->
    exists a', step a (pop_op k key m) = (a', Ret h) /\
      lookup a' k key m = None /\
      (forall k' key' m', (k', key', m') <> (k, key, m) ->
         lookup a' k' key' m' = lookup a k' key' m') /\
      a_filters a' = a_filters a /\ a_before a' = a_before a /\
      a_after a' = a_after a.
Proof. exact pop_removes_exactly_one. Qed.
Print Assumptions C19_pop_removes_exactly_one.

(* pop of an absent (key, method) raises KeyError and changes nothing *)
Theorem C19_pop_absent_raises :
  forall a k key m,
    (k = KDefault -> key = 0) -> lookup a k key m = None ->
    step a (pop_op k key m) = (a, Raised "KeyError").
Proof. exact pop_absent_raises. Qed.
Print Assumptions C19_pop_absent_raises.

(* removing a hook that is not registered raises ValueError, nothing changes *)
Theorem C19_hook_absent_raises :
  forall a f,
    (~ In f (a_before a) -> step a (PopBefore f) = (a, Raised "ValueError")) /\
    (~ In f (a_after a) -> step a (PopAfter f) = (a, Raised "ValueError")).
Proof. exact hook_absent_raises. Qed.
Print Assumptions C19_hook_absent_raises.

(* a hook never occurs twice, after any history ... *)
Theorem C19_hook_not_twice :
  forall ops : list op,
    NoDup (a_before (exec init ops)) /\ NoDup (a_after (exec init ops)).
Proof. exact hook_not_twice. Qed.
Print Assumptions C19_hook_not_twice.

(* ... because registering a present hook raises ValueError *)
Theorem C19_hook_twice_raises :
  forall a f,
    (In f (a_before a) -> step a (AddBefore f) = (a, Raised "ValueError")) /\
    (In f (a_after a) -> step a (AddAfter f) = (a, Raised "ValueError")).
Proof. exact hook_twice_raises. Qed.
Print Assumptions C19_hook_twice_raises.

(* removing a registered hook removes it and keeps the others in order *)
Theorem C19_hook_pop_exact :
  forall (ops : list op) f,
    In f (a_before (exec init ops)) ->
    step (exec init ops) (PopBefore f) =
    (set_before (exec init ops) (without f (a_before (exec init ops))), Done).
Proof. exact hook_pop_exact. Qed.
Print Assumptions C19_hook_pop_exact.

Theorem C19_hook_pop_exact_after :
  forall (ops : list op) f,
    In f (a_after (exec init ops)) ->
    step (exec init ops) (PopAfter f) =
    (set_after (exec init ops) (without f (a_after (exec init ops))), Done).
Proof. exact hook_pop_exact_after. Qed.
Print Assumptions C19_hook_pop_exact_after.

(* a mask registers the handler for exactly the method bits it contains
   (bits of state.methods), for the addressed key only *)
Theorem C19_mask_fans_out_per_bit :
  forall a k key f mask,
    (k = KDefault -> key = 0) ->
    (forall k' key' m,
       lookup (fst (step a (set_op k key f mask))) k' key' m =
       if kind_eqb k' k && (key' =? key) && inb m meths && has_bit mask m
       then Some f else lookup a k' key' m) /\
    a_filters (fst (step a (set_op k key f mask))) = a_filters a /\
    a_before (fst (step a (set_op k key f mask))) = a_before a /\
    a_after (fst (step a (set_op k key f mask))) = a_after a /\
    snd (step a (set_op k key f mask)) = Done.
Proof. exact mask_fans_out_per_bit. Qed.
Print Assumptions C19_mask_fans_out_per_bit.

(* set/pop/is_route with group syntax act on the regular-route table *)
Theorem C19_group_is_regular :
  forall a r f mask m,
    step a (SetRoute (Group r) f mask) = step a (SetRegular r f mask) /\
    step a (PopRoute (Group r) m) = step a (PopRegular r m) /\
    step a (IsRoute (Group r)) = step a (IsRegular r).
Proof. exact group_is_regular. Qed.
Print Assumptions C19_group_is_regular.

(* ------------------------------------------------------------------------
   Translator tie (TTIE.md): gen/RegistryGen.v is regenerated on every run
   by harness/py2v_registry.py from the registration methods of
   poorwsgi/wsgi.py Application (and the dict state.methods).  Each
   generated method -- a function  app -> arguments -> app * outcome  that
   threads the state through the statements of the Python method -- equals
   [step] of the model on the corresponding operation, for every state and
   all arguments (identifiers and the method mask are ints; a uri is
   [Group r] when re_filter matches it, else [Static p]). *)
Require Import PW.lib.PyRegistry PW.gen.RegistryGen PW.proofs.RegistryGenEq.

Theorem C19_generated_add_before_response_is_model :
  forall a f, gen_add_before_response a f = step a (AddBefore f).
Proof. exact gen_add_before_is_model. Qed.
Print Assumptions C19_generated_add_before_response_is_model.

Theorem C19_generated_pop_before_response_is_model :
  forall a f, gen_pop_before_response a f = step a (PopBefore f).
Proof. exact gen_pop_before_is_model. Qed.
Print Assumptions C19_generated_pop_before_response_is_model.

Theorem C19_generated_add_after_response_is_model :
  forall a f, gen_add_after_response a f = step a (AddAfter f).
Proof. exact gen_add_after_is_model. Qed.
Print Assumptions C19_generated_add_after_response_is_model.

Theorem C19_generated_pop_after_response_is_model :
  forall a f, gen_pop_after_response a f = step a (PopAfter f).
Proof. exact gen_pop_after_is_model. Qed.
Print Assumptions C19_generated_pop_after_response_is_model.

Theorem C19_generated_add_before_request_is_model :
  forall a f, gen_add_before_request a f = step a (AddBefore f).
Proof. exact gen_add_before_request_is_model. Qed.
Print Assumptions C19_generated_add_before_request_is_model.

Theorem C19_generated_pop_before_request_is_model :
  forall a f, gen_pop_before_request a f = step a (PopBefore f).
Proof. exact gen_pop_before_request_is_model. Qed.
Print Assumptions C19_generated_pop_before_request_is_model.

Theorem C19_generated_add_after_request_is_model :
  forall a f, gen_add_after_request a f = step a (AddAfter f).
Proof. exact gen_add_after_request_is_model. Qed.
Print Assumptions C19_generated_add_after_request_is_model.

Theorem C19_generated_pop_after_request_is_model :
  forall a f, gen_pop_after_request a f = step a (PopAfter f).
Proof. exact gen_pop_after_request_is_model. Qed.
Print Assumptions C19_generated_pop_after_request_is_model.

Theorem C19_generated_set_default_is_model :
  forall a f mask, gen_set_default a f mask = step a (SetDefault f mask).
Proof. exact gen_set_default_is_model. Qed.
Print Assumptions C19_generated_set_default_is_model.

Theorem C19_generated_pop_default_is_model :
  forall a m, gen_pop_default a m = step a (PopDefault m).
Proof. exact gen_pop_default_is_model. Qed.
Print Assumptions C19_generated_pop_default_is_model.

Theorem C19_generated_set_route_is_model :
  forall a u f mask, gen_set_route a u f mask = step a (SetRoute u f mask).
Proof. exact gen_set_route_is_model. Qed.
Print Assumptions C19_generated_set_route_is_model.

Theorem C19_generated_pop_route_is_model :
  forall a u m, gen_pop_route a u m = step a (PopRoute u m).
Proof. exact gen_pop_route_is_model. Qed.
Print Assumptions C19_generated_pop_route_is_model.

Theorem C19_generated_is_route_is_model :
  forall a u, gen_is_route a u = step a (IsRoute u).
Proof. exact gen_is_route_is_model. Qed.
Print Assumptions C19_generated_is_route_is_model.

Theorem C19_generated_set_regular_route_is_model :
  forall a r f mask, gen_set_regular_route a r f mask = step a (SetRegular r f mask).
Proof. exact gen_set_regular_is_model. Qed.
Print Assumptions C19_generated_set_regular_route_is_model.

Theorem C19_generated_pop_regular_route_is_model :
  forall a r m, gen_pop_regular_route a r m = step a (PopRegular r m).
Proof. exact gen_pop_regular_is_model. Qed.
Print Assumptions C19_generated_pop_regular_route_is_model.

Theorem C19_generated_is_regular_route_is_model :
  forall a r, gen_is_regular_route a r = step a (IsRegular r).
Proof. exact gen_is_regular_is_model. Qed.
Print Assumptions C19_generated_is_regular_route_is_model.

Theorem C19_generated_set_http_state_is_model :
  forall a code f mask, gen_set_http_state a code f mask = step a (SetState code f mask).
Proof. exact gen_set_state_is_model. Qed.
Print Assumptions C19_generated_set_http_state_is_model.

Theorem C19_generated_pop_http_state_is_model :
  forall a code m, gen_pop_http_state a code m = step a (PopState code m).
Proof. exact gen_pop_state_is_model. Qed.
Print Assumptions C19_generated_pop_http_state_is_model.

Theorem C19_generated_set_error_handler_is_model :
  forall a e f mask, gen_set_error_handler a e f mask = step a (SetError e f mask).
Proof. exact gen_set_error_is_model. Qed.
Print Assumptions C19_generated_set_error_handler_is_model.

Theorem C19_generated_pop_error_handler_is_model :
  forall a e m, gen_pop_error_handler a e m = step a (PopError e m).
Proof. exact gen_pop_error_is_model. Qed.
Print Assumptions C19_generated_pop_error_handler_is_model.

(* `for val in methods.values()` iterates over the method bits of the model *)
Theorem C19_generated_methods_is_model : gen_methods_values = meths.
Proof. exact gen_methods_is_model. Qed.
Print Assumptions C19_generated_methods_is_model.

(* default masks of the signatures: METHOD_HEAD | METHOD_GET for defaults and
   routes, METHOD_HEAD | METHOD_GET | METHOD_POST for states and errors *)
Theorem C19_generated_default_masks :
  gen_set_default_default_2 = 3 /\ gen_set_route_default_3 = 3 /\
  gen_set_regular_route_default_3 = 3 /\ gen_set_http_state_default_3 = 7 /\
  gen_set_error_handler_default_3 = 7.
Proof. exact gen_default_masks. Qed.
Print Assumptions C19_generated_default_masks.
