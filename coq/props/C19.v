(* C19  Registering and removing handlers changes exactly what was asked.
   Statements only; every proof is [exact <lemma of proofs/RegistryProofs.v>].

   [exec init ops] / [trace init ops]: state of the modelled Application and
   outcomes of the calls after the call sequence [ops]; [sexec sinit ops] /
   [strace sinit ops]: the same for the declarative registry (a map
   (kind, key, method bit) -> handler, a filter map, two hook lists).
   Views are canonicalised by [lookup] / [filter_of]: the handler registered
   for (kind, key, method) -- empty inner tables (left behind by
   pop_http_state / pop_error_handler) and table order are not observed. *)
From Coq Require Import ZArith List Bool String.
Require Import PW.lib.Val PW.model.Registry PW.proofs.RegistryProofs.
Import ListNotations.
Open Scope string_scope.
Open Scope Z_scope.

(* every sequence of calls: views of the model = views of the specification
   (lookups, filters, both hook lists), and every call other than is_*
   returned / raised the same thing *)
Theorem C19_registry_refines :
  forall ops : list op,
    ((forall k key m,
        lookup (exec init ops) k key m = s_map (sexec sinit ops) k key m) /\
     (forall n, filter_of (exec init ops) n = s_filter (sexec sinit ops) n) /\
     a_before (exec init ops) = s_before (sexec sinit ops) /\
     a_after (exec init ops) = s_after (sexec sinit ops)) /\
    agree ops (trace init ops) (strace sinit ops).
Proof. exact registry_refines. Qed.
Print Assumptions C19_registry_refines.

(* full statement: forall ops, trace init ops = strace sinit ops  (all
   outcomes, is_route / is_regular_route answers included).  Proved under the
   restriction that every route registration names at least one known method;
   without it the statement is refuted below. *)
Theorem C19_registry_refines_queries_partial :
  forall ops : list op,
    forallb route_mask_ok ops = true ->
    trace init ops = strace sinit ops.
Proof. exact registry_refines_queries. Qed.
Print Assumptions C19_registry_refines_queries_partial.

(* full statement "outcomes agree for all sequences" is false of the model
   (and of the code): set_route(uri, f, 0) registers nothing, yet is_route(uri)
   answers True afterwards *)
Theorem C19_is_route_empty_mask_refuted :
  exists ops, trace init ops <> strace sinit ops /\
    (forall m, lookup (exec init ops) KRoute 1 m = None) /\
    nth 1 (trace init ops) Done = Answer true.
Proof. exact is_route_empty_mask_refuted. Qed.
Print Assumptions C19_is_route_empty_mask_refuted.

(* pop removes exactly the addressed (kind, key, method) entry, returns its
   handler and leaves every other entry, the filters and hooks unchanged;
   in any state *)
Theorem C19_pop_removes_exactly_one :
  forall a k key m h,
    (k = KDefault -> key = 0) -> lookup a k key m = Some h ->
    exists a', step a (pop_op k key m) = (a', Ret h) /\
      lookup a' k key m = None /\
      (forall k' key' m', (k', key', m') <> (k, key, m) ->
         lookup a' k' key' m' = lookup a k' key' m') /\
      a_filters a' = a_filters a /\ a_before a' = a_before a /\
      a_after a' = a_after a.
Proof. exact pop_removes_exactly_one. Qed.
Print Assumptions C19_pop_removes_exactly_one.

(* pop of an absent (key, method) raises KeyError and changes nothing *)
Theorem C19_pop_absent_raises :
  forall a k key m,
    (k = KDefault -> key = 0) -> lookup a k key m = None ->
    step a (pop_op k key m) = (a, Raised "KeyError").
Proof. exact pop_absent_raises. Qed.
Print Assumptions C19_pop_absent_raises.

(* removing a hook that is not registered raises ValueError, nothing changes *)
Theorem C19_hook_absent_raises :
  forall a f,
    (~ In f (a_before a) -> step a (PopBefore f) = (a, Raised "ValueError")) /\
    (~ In f (a_after a) -> step a (PopAfter f) = (a, Raised "ValueError")).
Proof. exact hook_absent_raises. Qed.
Print Assumptions C19_hook_absent_raises.

(* a hook never occurs twice, after any history ... *)
Theorem C19_hook_not_twice :
  forall ops : list op,
    NoDup (a_before (exec init ops)) /\ NoDup (a_after (exec init ops)).
Proof. exact hook_not_twice. Qed.
Print Assumptions C19_hook_not_twice.

(* ... because registering a present hook raises ValueError *)
Theorem C19_hook_twice_raises :
  forall a f,
    (In f (a_before a) -> step a (AddBefore f) = (a, Raised "ValueError")) /\
    (In f (a_after a) -> step a (AddAfter f) = (a, Raised "ValueError")).
Proof. exact hook_twice_raises. Qed.
Print Assumptions C19_hook_twice_raises.

(* removing a registered hook removes it and keeps the others in order *)
Theorem C19_hook_pop_exact :
  forall (ops : list op) f,
    In f (a_before (exec init ops)) ->
    step (exec init ops) (PopBefore f) =
    (set_before (exec init ops) (without f (a_before (exec init ops))), Done).
Proof. exact hook_pop_exact. Qed.
Print Assumptions C19_hook_pop_exact.

Theorem C19_hook_pop_exact_after :
  forall (ops : list op) f,
    In f (a_after (exec init ops)) ->
    step (exec init ops) (PopAfter f) =
    (set_after (exec init ops) (without f (a_after (exec init ops))), Done).
Proof. exact hook_pop_exact_after. Qed.
Print Assumptions C19_hook_pop_exact_after.

(* a mask registers the handler for exactly the method bits it contains
   (bits of state.methods), for the addressed key only *)
Theorem C19_mask_fans_out_per_bit :
  forall a k key f mask,
    (k = KDefault -> key = 0) ->
    (forall k' key' m,
       lookup (fst (step a (set_op k key f mask))) k' key' m =
       if kind_eqb k' k && (key' =? key) && inb m meths && has_bit mask m
       then Some f else lookup a k' key' m) /\
    a_filters (fst (step a (set_op k key f mask))) = a_filters a /\
    a_before (fst (step a (set_op k key f mask))) = a_before a /\
    a_after (fst (step a (set_op k key f mask))) = a_after a /\
    snd (step a (set_op k key f mask)) = Done.
Proof. exact mask_fans_out_per_bit. Qed.
Print Assumptions C19_mask_fans_out_per_bit.

(* set/pop/is_route with group syntax act on the regular-route table *)
Theorem C19_group_is_regular :
  forall a r f mask m,
    step a (SetRoute (Group r) f mask) = step a (SetRegular r f mask) /\
    step a (PopRoute (Group r) m) = step a (PopRegular r m) /\
    step a (IsRoute (Group r)) = step a (IsRegular r).
Proof. exact group_is_regular. Qed.
Print Assumptions C19_group_is_regular.

(* ------------------------------------------------------------------------
   Translator tie (TTIE.md): gen/RegistryGen.v is regenerated on every run
   by harness/py2v_registry.py from the registration methods of
   poorwsgi/wsgi.py Application (and the dict state.methods).  Each
   generated method -- a function  app -> arguments -> app * outcome  that
   threads the state through the statements of the Python method -- equals
   [step] of the model on the corresponding operation, for every state and
   all arguments (identifiers and the method mask are ints; a uri is
   [Group r] when re_filter matches it, else [Static p]). *)
Require Import PW.lib.PyRegistry PW.gen.RegistryGen PW.proofs.RegistryGenEq.

Theorem C19_generated_add_before_response_is_model :
  forall a f, gen_add_before_response a f = step a (AddBefore f).
Proof. exact gen_add_before_is_model. Qed.
Print Assumptions C19_generated_add_before_response_is_model.

Theorem C19_generated_pop_before_response_is_model :
  forall a f, gen_pop_before_response a f = step a (PopBefore f).
Proof. exact gen_pop_before_is_model. Qed.
Print Assumptions C19_generated_pop_before_response_is_model.

Theorem C19_generated_add_after_response_is_model :
  forall a f, gen_add_after_response a f = step a (AddAfter f).
Proof. exact gen_add_after_is_model. Qed.
Print Assumptions C19_generated_add_after_response_is_model.

Theorem C19_generated_pop_after_response_is_model :
  forall a f, gen_pop_after_response a f = step a (PopAfter f).
Proof. exact gen_pop_after_is_model. Qed.
Print Assumptions C19_generated_pop_after_response_is_model.

Theorem C19_generated_add_before_request_is_model :
  forall a f, gen_add_before_request a f = step a (AddBefore f).
Proof. exact gen_add_before_request_is_model. Qed.
Print Assumptions C19_generated_add_before_request_is_model.

Theorem C19_generated_pop_before_request_is_model :
  forall a f, gen_pop_before_request a f = step a (PopBefore f).
Proof. exact gen_pop_before_request_is_model. Qed.
Print Assumptions C19_generated_pop_before_request_is_model.

Theorem C19_generated_add_after_request_is_model :
  forall a f, gen_add_after_request a f = step a (AddAfter f).
Proof. exact gen_add_after_request_is_model. Qed.
Print Assumptions C19_generated_add_after_request_is_model.

Theorem C19_generated_pop_after_request_is_model :
  forall a f, gen_pop_after_request a f = step a (PopAfter f).
Proof. exact gen_pop_after_request_is_model. Qed.
Print Assumptions C19_generated_pop_after_request_is_model.

Theorem C19_generated_set_default_is_model :
  forall a f mask, gen_set_default a f mask = step a (SetDefault f mask).
Proof. exact gen_set_default_is_model. Qed.
Print Assumptions C19_generated_set_default_is_model.

Theorem C19_generated_pop_default_is_model :
  forall a m, gen_pop_default a m = step a (PopDefault m).
Proof. exact gen_pop_default_is_model. Qed.
Print Assumptions C19_generated_pop_default_is_model.

Theorem C19_generated_set_route_is_model :
  forall a u f mask, gen_set_route a u f mask = step a (SetRoute u f mask).
Proof. exact gen_set_route_is_model. Qed.
Print Assumptions C19_generated_set_route_is_model.

Theorem C19_generated_pop_route_is_model :
  forall a u m, gen_pop_route a u m = step a (PopRoute u m).
Proof. exact gen_pop_route_is_model. Qed.
Print Assumptions C19_generated_pop_route_is_model.

Theorem C19_generated_is_route_is_model :
  forall a u, gen_is_route a u = step a (IsRoute u).
Proof. exact gen_is_route_is_model. Qed.
Print Assumptions C19_generated_is_route_is_model.

Theorem C19_generated_set_regular_route_is_model :
  forall a r f mask, gen_set_regular_route a r f mask = step a (SetRegular r f mask).
Proof. exact gen_set_regular_is_model. Qed.
Print Assumptions C19_generated_set_regular_route_is_model.

Theorem C19_generated_pop_regular_route_is_model :
  forall a r m, gen_pop_regular_route a r m = step a (PopRegular r m).
Proof. exact gen_pop_regular_is_model. Qed.
Print Assumptions C19_generated_pop_regular_route_is_model.

Theorem C19_generated_is_regular_route_is_model :
  forall a r, gen_is_regular_route a r = step a (IsRegular r).
Proof. exact gen_is_regular_is_model. Qed.
Print Assumptions C19_generated_is_regular_route_is_model.

Theorem C19_generated_set_http_state_is_model :
  forall a code f mask, gen_set_http_state a code f mask = step a (SetState code f mask).
Proof. exact gen_set_state_is_model. Qed.
Print Assumptions C19_generated_set_http_state_is_model.

Theorem C19_generated_pop_http_state_is_model :
  forall a code m, gen_pop_http_state a code m = step a (PopState code m).
Proof. exact gen_pop_state_is_model. Qed.
Print Assumptions C19_generated_pop_http_state_is_model.

Theorem C19_generated_set_error_handler_is_model :
  forall a e f mask, gen_set_error_handler a e f mask = step a (SetError e f mask).
Proof. exact gen_set_error_is_model. Qed.
Print Assumptions C19_generated_set_error_handler_is_model.

Theorem C19_generated_pop_error_handler_is_model :
  forall a e m, gen_pop_error_handler a e m = step a (PopError e m).
Proof. exact gen_pop_error_is_model. Qed.
Print Assumptions C19_generated_pop_error_handler_is_model.

(* `for val in methods.values()` iterates over the method bits of the model *)
Theorem C19_generated_methods_is_model : gen_methods_values = meths.
Proof. exact gen_methods_is_model. Qed.
Print Assumptions C19_generated_methods_is_model.

(* default masks of the signatures: METHOD_HEAD | METHOD_GET for defaults and
   routes, METHOD_HEAD | METHOD_GET | METHOD_POST for states and errors *)
Theorem C19_generated_default_masks :
  gen_set_default_default_2 = 3 /\ gen_set_route_default_3 = 3 /\
  gen_set_regular_route_default_3 = 3 /\ gen_set_http_state_default_3 = 7 /\
  gen_set_error_handler_default_3 = 7.
Proof. exact gen_default_masks. Qed.
Print Assumptions C19_generated_default_masks.

(* ---- translator tie: the read-only views and the decorator forms
   (harness/py2v_views.py -> gen/ViewsGen.v, proofs/ViewsGenEq.v) *)
Require Import PW.gen.ViewsGen PW.proofs.ViewsGenEq.

(* every view property (filters, before, after, defaults, routes,
   regular_routes, states, errors) returns the table of the model that the
   refinement theorems compare; the canonical views [lookup] / [filter_of]
   are functions of what the properties return; every property detaches its
   result by tuple() / .copy(); a returned value is not changed by a later
   operation *)
Theorem C19_generated_views_are_model :
  (forall a,
     gen_view_filters a = a_filters a /\ gen_view_before a = a_before a /\
     gen_view_after a = a_after a /\ gen_view_defaults a = a_defaults a /\
     gen_view_routes a = a_routes a /\
     gen_view_regular_routes a = a_regular a /\
     gen_view_states a = a_states a /\ gen_view_errors a = a_errors a) /\
  (forall a key m n,
     lookup a KDefault 0 m = zget m (gen_view_defaults a) /\
     lookup a KRoute key m = tlookup (gen_view_routes a) key m /\
     lookup a KRegular key m = tlookup (gen_view_regular_routes a) key m /\
     lookup a KState key m = tlookup (gen_view_states a) key m /\
     lookup a KError key m = tlookup (gen_view_errors a) key m /\
     filter_of a n = get lz_eqb n (gen_view_filters a)) /\
  forallb (fun r => let k := snd (fst r) in
                    (String.eqb k "tuple" || String.eqb k "copy")%bool)
          gen_views = true /\
  (forall a o,
     let before := gen_view_before a in
     let after := gen_view_after a in
     let defaults := gen_view_defaults a in
     let filters := gen_view_filters a in
     let a' := fst (step a o) in
     before = a_before a /\ after = a_after a /\ defaults = a_defaults a /\
     filters = a_filters a /\
     (forall f, inb f (a_before a) = false ->
        gen_view_before (fst (step a (AddBefore f))) = before ++ [f])).
Proof.
  split; [exact gen_views_are_model|].
  split; [exact gen_views_give_lookup|].
  split; [exact (proj1 (proj2 gen_views_table))|].
  exact gen_views_are_snapshots.
Qed.
Print Assumptions C19_generated_views_are_model.

(* `app.D(args)(fun)`: the wrapper performs the operation of the set_* /
   add_* method with the decorator's arguments and returns fun (nothing when
   the method raises); the defaults of the decorators' signatures are those
   of the methods *)
Theorem C19_generated_decorators_are_model :
  (forall a f,
     gen_deco_before_response a f = decorated (step a (AddBefore f)) f /\
     gen_deco_before_request a f = decorated (step a (AddBefore f)) f /\
     gen_deco_after_response a f = decorated (step a (AddAfter f)) f /\
     gen_deco_after_request a f = decorated (step a (AddAfter f)) f) /\
  (forall a u r code e mask f,
     gen_deco_default a mask f = decorated (step a (SetDefault f mask)) f /\
     gen_deco_route a u mask f = decorated (step a (SetRoute u f mask)) f /\
     gen_deco_regular_route a r mask f =
       decorated (step a (SetRegular r f mask)) f /\
     gen_deco_http_state a code mask f =
       decorated (step a (SetState code f mask)) f /\
     gen_deco_error_handler a e mask f =
       decorated (step a (SetError e f mask)) f) /\
  (forall a u r code e mask f,
     gen_deco_default a mask f =
       (fst (step a (SetDefault f mask)), Done, Some f) /\
     gen_deco_route a u mask f =
       (fst (step a (SetRoute u f mask)), Done, Some f) /\
     gen_deco_regular_route a r mask f =
       (fst (step a (SetRegular r f mask)), Done, Some f) /\
     gen_deco_http_state a code mask f =
       (fst (step a (SetState code f mask)), Done, Some f) /\
     gen_deco_error_handler a e mask f =
       (fst (step a (SetError e f mask)), Done, Some f)) /\
  (gen_deco_default_default_1 = 3 /\ gen_deco_route_default_2 = 3 /\
   gen_deco_regular_route_default_2 = 3 /\
   gen_deco_http_state_default_2 = 7 /\
   gen_deco_error_handler_default_2 = 7).
Proof.
  split.
  { intros a f. repeat split.
    - apply gen_deco_before_response_is_model.
    - apply gen_deco_before_request_is_model.
    - apply gen_deco_after_response_is_model.
    - apply gen_deco_after_request_is_model. }
  split.
  { intros a u r code e mask f. repeat split.
    - apply gen_deco_default_is_model.
    - apply gen_deco_route_is_model.
    - apply gen_deco_regular_route_is_model.
    - apply gen_deco_http_state_is_model.
    - apply gen_deco_error_handler_is_model. }
  split; [exact gen_deco_set_returns_fun|].
  repeat split.
Qed.
Print Assumptions C19_generated_decorators_are_model.
