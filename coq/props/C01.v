(* C01  Every request gets exactly one well-formed WSGI answer.
   Model: model/Dispatch.v (request_cycle).  Statements only. *)
From Coq Require Import ZArith List Bool.
Require Import PW.lib.Val PW.model.Dispatch PW.proofs.DispatchProofs PW.proofs.DispatchMore.
Import ListNotations.
Open Scope Z_scope.

Section C01.
  Variable known_status : Z -> bool.      (* http.client.responses *)
  Variable reason : Z -> list Z.
  Variable isinst : exn -> Z -> bool.     (* isinstance *)
  Variable builtin : Z -> bool.           (* default_states *)
  Variable page : Z -> resp.              (* built-in pages *)

  (* no exception leaves Application.__call__: for every application
     (hooks, status and exception handlers with ANY behaviour, lists of any
     length) and every request (construction failure, method, chosen leaf) *)
  Theorem C01_never_raises :
    forall a f e,
      fst (request_cycle known_status reason isinst builtin page a f) <> Escaped e.
  Proof. exact (never_escapes known_status reason isinst builtin page). Qed.

  (* start_response is invoked exactly once with the status line, or not at
     all with an empty iterable -- and the latter only for a connection-level
     error in the request phase or a declined request *)
  Theorem C01_exactly_once_or_documented_no_answer :
    forall a f, exists em,
      fst (request_cycle known_status reason isinst builtin page a f) = Answered em /\
      ((exists st hs, calls em = [(status_line reason st, hs)]) \/
       (calls em = [] /\ chunks em = [] /\
        (fst (ladder known_status isinst builtin page a f) = P1NoAnswer \/
         exists r, final_response known_status isinst builtin page a f = Some r /\
                   rcls r = CDeclined))).
  Proof. exact (answer_shape known_status reason isinst builtin page). Qed.

  Theorem C01_no_answer_means_connection_error :
    forall a f,
      fst (ladder known_status isinst builtin page a f) = P1NoAnswer ->
      fst (try_body known_status a f) = Exc EConn \/
      fst (try_body known_status a f) = Exc EExit.
  Proof. exact (try_body_conn_only known_status isinst builtin page). Qed.

  (* the status handed to start_response is a registered status code and all
     header names and values are latin-1, provided the response objects the
     user code hands in are (status known, Headers invariant of C14, content
     type encodable) and the built-in pages are *)
  Theorem C01_answer_wellformed :
    known_status 204 = true -> known_status 200 = true ->
    (forall c, wf_resp known_status (page c)) ->
    forall a f em,
      app_ok (wf_resp known_status) a -> facts_ok (wf_resp known_status) f ->
      fst (request_cycle known_status reason isinst builtin page a f) = Answered em ->
      Forall (fun c => exists st, fst c = status_line reason st /\
                                  known_status st = true /\
                                  Forall hdr_latin1 (snd c)) (calls em).
  Proof. exact (answer_wellformed known_status reason isinst builtin page). Qed.
End C01.

Print Assumptions C01_never_raises.
Print Assumptions C01_exactly_once_or_documented_no_answer.
Print Assumptions C01_no_answer_means_connection_error.
Print Assumptions C01_answer_wellformed.

(* ---- translator tie: [ladder] and [request_cycle] used above are equal to
   the definition generated from the current poorwsgi/wsgi.py
   (Application.__request__, whole body) by harness/py2v_dispatch.py
   (gen/DispatchGen.v is rewritten on every check run), over the primitives
   of lib/PyDispatch.v.  Domain: Request(env, app) itself does not raise
   ResponseError (only make_response raises it).  [observe] reads the value
   __request__ returns the way the WSGI server does: () is an empty answer,
   the result of response(start_response) is that emission. *)
Require Import PW.lib.PyDispatch PW.gen.DispatchGen PW.proofs.DispatchGenEq.

(* the try/except ladder, continuing with the generated rest of the method *)
Theorem C01_generated_request_ladder_is_model :
  forall w a f sr,
    fconstruct f <> Some ERespErr ->
    gen_request w a f DEnv sr
    = let '(p, ev) := ladder (w_known w) (w_isinst w) (w_builtin w) (w_page w) a f in
      match p with
      | P1Resp r =>
          let '(x, ev2) := gen_request_k1 w a f DEnv sr (DR (fmethod f)) (DV (PResp r)) in
          (fin x, ev ++ ev2)
      | P1NoAnswer => (Val (DV (PTuple [])), ev)
      | P1Escaped e => (Exc e, ev)
      end.
Proof. exact gen_request_ladder_eq. Qed.
Print Assumptions C01_generated_request_ladder_is_model.

Theorem C01_generated_request_cycle_is_model :
  forall w a f sr,
    fconstruct f <> Some ERespErr ->
    observe (fst (gen_request w a f DEnv sr))
    = Some (fst (request_cycle (w_known w) (w_reason w) (w_isinst w) (w_builtin w) (w_page w) a f)) /\
    snd (gen_request w a f DEnv sr)
    = snd (request_cycle (w_known w) (w_reason w) (w_isinst w) (w_builtin w) (w_page w) a f).
Proof. exact gen_request_eq. Qed.
Print Assumptions C01_generated_request_cycle_is_model.
