(* C11  Digest-protected endpoints run only for correctly authenticated
   requests.  Statements only; every proof is [exact <lemma of
   proofs/DigestProofs.v>].

   Ht, Hh, Ho are the hexdigest functions (nonce SHA-256, configured
   algorithm, opaque SHA-256) and Unq is urllib.parse.unquote: arbitrary
   functions unless a hypothesis says otherwise.  [gate] is the decorator
   check_digest applied to the parsed Authorization header (None = no
   header); [gate_raw] runs the tokenizer first. *)
From Coq Require Import ZArith List Bool String.
Require Import PW.lib.Val PW.model.Token PW.model.Digest PW.proofs.DigestProofs.
Import ListNotations.
Open Scope list_scope.
Open Scope Z_scope.

(* every Python exception path is impossible or caught: for every dict that
   has the key 'type' (Request.authorization always sets it) ... *)
Theorem C11_digest_total :
  forall Ht Hh Ho Unq ty fields e x,
    gate Ht Hh Ho Unq (Some (dset k_type ty fields)) e <> Crash x.
Proof. exact digest_total. Qed.
Print Assumptions C11_digest_total.

(* ... and for every header text, present or absent *)
Theorem C11_digest_total_raw :
  forall Ht Hh Ho Unq raw e x, gate_raw Ht Hh Ho Unq raw e <> Crash x.
Proof. exact digest_total_raw. Qed.
Print Assumptions C11_digest_total_raw.

Theorem C11_no_header_denied :
  forall Ht Hh Ho Unq e, gate Ht Hh Ho Unq None e = Deny401 false.
Proof. exact no_header_denied. Qed.
Print Assumptions C11_no_header_denied.

(* hence every request either runs the endpoint or is answered 401 *)
Theorem C11_not_run_is_401 :
  forall Ht Hh Ho Unq hdr e,
    (forall d, hdr = Some d -> dget k_type d <> None) ->
    (exists u, gate Ht Hh Ho Unq hdr e = Run u) \/
    (exists s, gate Ht Hh Ho Unq hdr e = Deny401 s).
Proof. exact not_run_is_401. Qed.
Print Assumptions C11_not_run_is_401.

(* soundness: the endpoint runs with user u only if u is registered in the
   realm's map with a non-empty hash p, is the required user when one is
   required, algorithm / opaque / qop / realm are the configured ones, the
   uri field designates the request (percent-decoded path and verbatim
   query are EQUAL to the request's, after the absolute-URI form is reduced
   to its path), the nonce verifies now, and the response field is the
   RFC 7616 value recomputed from p and the header's own fields *)
Theorem C11_digest_sound :
  forall Ht Hh Ho Unq d e u,
    gate Ht Hh Ho Unq (Some d) e = Run u ->
    dget k_type d = Some s_Digest /\
    dget k_username d = Some u /\
    (exists p,
        lookup_password e (Some u) = Some p /\ p <> [] /\
        dget k_response d =
        Some (rfc_response Hh (is_sess e) (nonempty (c_qop e)) p
                           (dgetd k_nonce d) (dgetd k_nc d) (dgetd k_cnonce d)
                           (dgetd k_qop d) (r_method e) (dgetd k_uri d))) /\
    (forall r, c_user e = Some r -> r <> [] -> u = r) /\
    dget k_algorithm d = Some (c_algorithm e) /\
    dget k_opaque d = Some (Ho (r_host e)) /\
    (c_qop e <> [] -> dget k_qop d = Some (c_qop e)) /\
    dget k_realm d = Some (c_realm e) /\
    (dget k_uri d <> None /\
     Unq (fst (split_uri (dgetd k_uri d))) = req_path e /\
     snd (split_uri (dgetd k_uri d)) = req_query e) /\
    (dget k_nonce d <> None /\
     check_token Ht (dgetd k_nonce d) (c_secret e) (r_client e) (c_timeout e)
                 (r_time e) = Some true).
Proof. exact digest_sound. Qed.
Print Assumptions C11_digest_sound.

(* consequences: an altered response never runs ... *)
Theorem C11_digest_altered_response_rejected :
  forall Ht Hh Ho Unq d e u p,
    lookup_password e (dget k_username d) = Some p ->
    dget k_response d <>
    Some (rfc_response Hh (is_sess e) (nonempty (c_qop e)) p
                       (dgetd k_nonce d) (dgetd k_nc d) (dgetd k_cnonce d)
                       (dgetd k_qop d) (r_method e) (dgetd k_uri d)) ->
    gate Ht Hh Ho Unq (Some d) e <> Run u.
Proof. exact digest_altered_response_rejected. Qed.
Print Assumptions C11_digest_altered_response_rejected.

(* ... and with a collision-free hash, a header computed per RFC 7616 from
   another password, or for another method, never runs *)
Theorem C11_digest_wrong_password_rejected :
  forall Ht Hh Ho Unq e user pw pw' nonce nc cnonce uri u,
    injective Hh ->
    lookup_password e (Some user) = Some (rfc_A1 Hh user (c_realm e) pw) ->
    pw' <> pw ->
    gate Ht Hh Ho Unq
         (Some (rfc7616_fields Hh (c_algorithm e) (c_qop e) (c_realm e)
                               (Ho (r_host e)) user pw' nonce nc cnonce
                               (r_method e) uri)) e <> Run u.
Proof. exact digest_wrong_password_rejected. Qed.
Print Assumptions C11_digest_wrong_password_rejected.

Theorem C11_digest_wrong_method_rejected :
  forall Ht Hh Ho Unq e user pw m' nonce nc cnonce uri u,
    injective Hh ->
    lookup_password e (Some user) = Some (rfc_A1 Hh user (c_realm e) pw) ->
    m' <> r_method e ->
    gate Ht Hh Ho Unq
         (Some (rfc7616_fields Hh (c_algorithm e) (c_qop e) (c_realm e)
                               (Ho (r_host e)) user pw nonce nc cnonce
                               m' uri)) e <> Run u.
Proof. exact digest_wrong_method_rejected. Qed.
Print Assumptions C11_digest_wrong_method_rejected.

(* completeness: the header an RFC 7616 client builds ([rfc7616_fields],
   defined independently of check_response) from a registered user's
   password, for a uri designating the request and a nonce that verifies,
   runs the endpoint as that user -- for every algorithm name and every qop
   setting ... *)
Theorem C11_digest_complete :
  forall Ht Hh Ho Unq e user pw nonce nc cnonce uri,
    lookup_password e (Some user) = Some (rfc_A1 Hh user (c_realm e) pw) ->
    rfc_A1 Hh user (c_realm e) pw <> [] ->
    (forall r, c_user e = Some r -> r <> [] -> user = r) ->
    Unq (fst (split_uri uri)) = req_path e ->
    snd (split_uri uri) = req_query e ->
    check_token Ht nonce (c_secret e) (r_client e) (c_timeout e) (r_time e)
    = Some true ->
    gate Ht Hh Ho Unq
         (Some (rfc7616_fields Hh (c_algorithm e) (c_qop e) (c_realm e)
                               (Ho (r_host e)) user pw nonce nc cnonce
                               (r_method e) uri)) e = Run user.
Proof. exact digest_complete. Qed.
Print Assumptions C11_digest_complete.

(* ... in particular for the 4 algorithms x qop in {auth, none} *)
Theorem C11_digest_complete_grid :
  forall Ht Hh Ho Unq e user pw nonce nc cnonce uri,
    In (c_algorithm e) [s2l "MD5"; s2l "MD5-sess"; s2l "SHA-256";
                        s2l "SHA-256-sess"] ->
    c_qop e = s2l "auth" \/ c_qop e = [] ->
    lookup_password e (Some user) = Some (rfc_A1 Hh user (c_realm e) pw) ->
    rfc_A1 Hh user (c_realm e) pw <> [] ->
    (forall r, c_user e = Some r -> r <> [] -> user = r) ->
    Unq (fst (split_uri uri)) = req_path e ->
    snd (split_uri uri) = req_query e ->
    check_token Ht nonce (c_secret e) (r_client e) (c_timeout e) (r_time e)
    = Some true ->
    gate Ht Hh Ho Unq
         (Some (rfc7616_fields Hh (c_algorithm e) (c_qop e) (c_realm e)
                               (Ho (r_host e)) user pw nonce nc cnonce
                               (r_method e) uri)) e = Run user.
Proof. exact digest_complete_grid. Qed.
Print Assumptions C11_digest_complete_grid.

(* ... and with a nonce the server issued less than one period ago *)
Theorem C11_digest_complete_fresh :
  forall Ht Hh Ho Unq e user pw nonce nc cnonce uri T t0,
    injective Ht ->
    lookup_password e (Some user) = Some (rfc_A1 Hh user (c_realm e) pw) ->
    rfc_A1 Hh user (c_realm e) pw <> [] ->
    (forall r, c_user e = Some r -> r <> [] -> user = r) ->
    Unq (fst (split_uri uri)) = req_path e ->
    snd (split_uri uri) = req_query e ->
    c_timeout e = Some T -> 0 < T ->
    get_token Ht (c_secret e) (r_client e) (Some T) 0 t0 = Some nonce ->
    0 <= t0 <= r_time e -> r_time e - t0 < T * usec ->
    gate Ht Hh Ho Unq
         (Some (rfc7616_fields Hh (c_algorithm e) (c_qop e) (c_realm e)
                               (Ho (r_host e)) user pw nonce nc cnonce
                               (r_method e) uri)) e = Run user.
Proof. exact digest_complete_fresh. Qed.
Print Assumptions C11_digest_complete_fresh.

(* stale=true exactly when the header is a Digest one whose nonce does not
   verify *)
Theorem C11_stale_iff :
  forall Ht Hh Ho Unq hdr e,
    gate Ht Hh Ho Unq hdr e = Deny401 true <->
    exists d, hdr = Some d /\ dget k_type d = Some s_Digest /\
              check_nonce Ht d e = Some false.
Proof. exact stale_iff. Qed.
Print Assumptions C11_stale_iff.

Theorem C11_valid_nonce_never_stale :
  forall Ht Hh Ho Unq d e,
    check_nonce Ht d e = Some true ->
    gate Ht Hh Ho Unq (Some d) e <> Deny401 true.
Proof. exact valid_nonce_never_stale. Qed.
Print Assumptions C11_valid_nonce_never_stale.

(* for a nonce this server issued at t0: stale only when it is at least one
   period old (outside the issue window and the next one) ... *)
Theorem C11_stale_only_when_nonce_old :
  forall Ht Hh Ho Unq d e T t0 tok,
    injective Ht ->
    c_timeout e = Some T -> 0 < T ->
    dget k_nonce d = Some tok ->
    get_token Ht (c_secret e) (r_client e) (Some T) 0 t0 = Some tok ->
    0 <= t0 <= r_time e ->
    gate Ht Hh Ho Unq (Some d) e = Deny401 true ->
    T * usec <= r_time e - t0 /\
    r_time e / (T * usec) <> t0 / (T * usec) /\
    r_time e / (T * usec) <> t0 / (T * usec) + 1.
Proof. exact stale_only_when_nonce_old. Qed.
Print Assumptions C11_stale_only_when_nonce_old.

(* ... and always once it is two periods old *)
Theorem C11_expired_nonce_is_stale :
  forall Ht Hh Ho Unq d e T t0 tok,
    injective Ht ->
    c_timeout e = Some T -> 0 < T ->
    dget k_type d = Some s_Digest ->
    dget k_nonce d = Some tok ->
    get_token Ht (c_secret e) (r_client e) (Some T) 0 t0 = Some tok ->
    0 <= t0 <= r_time e -> 2 * T * usec <= r_time e - t0 ->
    gate Ht Hh Ho Unq (Some d) e = Deny401 true.
Proof. exact expired_nonce_is_stale. Qed.
Print Assumptions C11_expired_nonce_is_stale.

(* ---- translator tie: check_response and check_credentials of the model are
   equal to the definitions generated from the current poorwsgi/digest.py by
   harness/py2v_digest.py (gen/DigestGen.v is rewritten on every check run),
   over the Python semantics of lib/Py.v + lib/PyDigest.v -- for every
   authorization dictionary [d] (any fields present or missing), every
   configuration and request [e].  Domain: field values, method, path, query,
   host name, algorithm, realm, map entries and the password are str;
   app.auth_qop is a str or None ([qop_ok]; the model's [] stands for both);
   username is a str or None ([inj_user]).  A Python KeyError is
   [Err (Raised "KeyError" (PStr k))] = [CRKeyError k] ([inj_cr]).  The
   request attributes check_response does not read are arbitrary values. *)
Require Import PW.lib.Py PW.lib.PyDigest PW.gen.DigestGen PW.proofs.DigestGenEq.

Theorem C11_generated_check_response_is_model :
  forall Hh d e qv pw vpath vquery vhost vmap,
    qop_ok qv (c_qop e) ->
    gen_check_response Hh (inj_dict d) (PStr (r_method e)) vpath vquery vhost
                       (PStr (c_algorithm e)) qv vmap (PStr pw)
    = inj_cr (check_response Hh d e pw).
Proof. exact gen_check_response_eq. Qed.
Print Assumptions C11_generated_check_response_is_model.

Theorem C11_generated_check_credentials_is_model :
  forall Hh Ho Unq d e qv,
    qop_ok qv (c_qop e) ->
    gen_check_credentials Hh Ho Unq (inj_dict d) (PStr (r_method e))
      (PStr (req_path e)) (PStr (req_query e)) (PStr (r_host e))
      (PStr (c_algorithm e)) qv (inj_map (c_map e))
      (PStr (c_realm e)) (inj_user (c_user e))
    = Ok (PBool (check_credentials Hh Ho Unq d e)).
Proof. exact gen_check_credentials_eq. Qed.
Print Assumptions C11_generated_check_credentials_is_model.

(* the request gate (innermost function of check_digest: header missing /
   wrong scheme / nonce not verified (stale) / credentials invalid -> 401,
   else req.user is set and the endpoint runs) generated from the source is
   the model's [gate].  [hdr] = None: no Authorization header ([hv], the
   value of req.headers, has the key exactly when hdr is Some); Some d:
   req.authorization is [d].  check_token is the definition generated from
   session.py (gen/TokenGen.v, C16) at the exact time [clock (r_time e)].
   Outcomes ([inj_result]): Run u = [pcall_endpoint (PStr u)] (`fun(req)`
   reached with req.user = u); Deny401 stale = HTTPException(401,
   realm=..[, stale=True]); Crash = the KeyError / ZeroDivisionError. *)
Require Import PW.gen.TokenGen PW.proofs.TokenGenEq.

Theorem C11_generated_check_digest_is_model :
  forall Hh Ho Unq Ht hdr e qv hv authv,
    qop_ok qv (c_qop e) ->
    pnot_contains (PStr s_Authorization) hv
    = Ok (PBool (negb (is_some hdr))) ->
    (forall d, hdr = Some d -> authv = inj_dict d) ->
    0 <= r_time e -> (forall T, c_timeout e = Some T -> 0 <= T) ->
    gen_digest_handler Hh Ho Unq
      (fun a b c d => gen_check_token Ht a b c d (clock (r_time e)))
      authv (PStr (r_method e))
      (PStr (req_path e)) (PStr (req_query e)) (PStr (r_host e))
      (PStr (c_algorithm e)) qv (inj_map (c_map e))
      hv (PStr (c_secret e)) (PStr (r_client e)) (inj_to (c_timeout e))
      (PStr (c_realm e)) (inj_user (c_user e))
    = inj_result (c_realm e) hdr (gate Ht Hh Ho Unq hdr e).
Proof. exact gen_digest_handler_token_eq. Qed.
Print Assumptions C11_generated_check_digest_is_model.

(* ---- Request.authorization (the parser of the Authorization header)
   generated from the current request.py / headers.py by
   harness/py2v_reqfacts.py (gen/ReqFactsGen.v, over lib/Py.v +
   lib/PyDigest.v + lib/PyReqFacts.v) is the model's [parse_authorization],
   for every header text [raw] ([hv] is req.__headers; its
   .get('Authorization', '') is [raw]) on the first use (cache None).  The
   regex scanner stays the model's primitive: [Scan p s] stands for
   re.compile(p).findall(s); the pattern text [p] is read from the source
   (RE_AUTHORIZATION) and must be [re_authorization_text], the pattern the
   model's [findall] implements.  The UTF-8 decoder of Headers.utf8 is the
   model's strict [utf8_decode true]. *)
Require Import PW.lib.PyReqFacts PW.gen.ReqFactsGen PW.proofs.ReqFactsGenEq.

Theorem C11_generated_authorization_is_model :
  forall (Scan : list Z -> list Z -> list (str * str)) Unq hv raw,
    (forall s, Scan re_authorization_text s = findall (List.length s) s) ->
    pdict_get hv (PStr s_Authorization) (PStr []) = Ok (PStr raw) ->
    gen_authorization Scan Unq (utf8_decode true) PNone hv
    = Ok (inj_dict (parse_authorization Unq raw)).
Proof. intros Scan Unq hv raw HS. exact (gen_authorization_eq Scan Unq HS hv raw). Qed.
Print Assumptions C11_generated_authorization_is_model.

Theorem C11_generated_authorization_pattern_text :
  re_authorization_text
  = s2l "(\w+\*?)[=] ?(""[^""]+""|[\w\-\'%]+)".
Proof. reflexivity. Qed.
Print Assumptions C11_generated_authorization_pattern_text.

(* req.path as check_credentials compares it ([req_path e] = utf8_fix of
   PATH_INFO) is SimpleRequest.path generated from the source *)
Theorem C11_generated_path_is_model :
  forall ei e,
    items_get (PStr k_path_info) ei = Some (PStr (r_path_info e)) ->
    gen_path (utf8_decode true) (PDict ei) = Ok (PStr (req_path e)).
Proof. intros ei e H. exact (gen_path_digest ei _ H). Qed.
Print Assumptions C11_generated_path_is_model.

(* ... and it is the path the routing model (C02, model/Routing.v) selects
   with: the two hand models decode PATH_INFO identically *)
Theorem C11_generated_path_agrees_with_routing :
  forall e, req_path e = PW.model.Routing.req_path (r_path_info e).
Proof. intros e. symmetry. apply req_path_models_agree. Qed.
Print Assumptions C11_generated_path_agrees_with_routing.

(* ---- translator tie and links for the issuing side: the Digest challenge of
   the built-in 401 page, poorwsgi/results.py unauthorized.  The hand model
   is model/Challenge.v ([challenge cfg renv realm stale]: the text of the
   WWW-Authenticate header, no header, or the RuntimeError for a missing
   realm); gen/ChallengeGen.v is rewritten from the current source on every
   check run by harness/py2v_challenge.py.  get_token of session.py is the
   generated gen_get_token (C16) at the exact time [clock (q_time r)]; the
   page text is the opaque [Page] of the three page arguments (its literal
   is tied by C15); [err] is the `error` argument (any value: only logged). *)
Require Import PW.lib.Py PW.lib.PyDigest PW.lib.PyChallenge PW.model.Challenge
  PW.gen.TokenGen PW.proofs.TokenGenEq PW.gen.ChallengeGen
  PW.proofs.ChallengeGenEq PW.proofs.ChallengeProofs.

Theorem C11_generated_challenge_is_model :
  forall Ht Ho Esc Page c r realm stale m u a err,
    0 <= q_time r -> (forall T, a_timeout c = Some T -> 0 <= T) ->
    gen_unauthorized Ho Esc (GTt Ht (q_time r)) Page
      (inj_os (a_type c)) (PStr (q_secret r)) (PStr (q_client r))
      (inj_to (a_timeout c)) (PStr (q_host r)) (inj_os (a_qop c))
      (PStr (a_algorithm c)) (PStr m) (PStr u) (PStr a)
      (inj_os realm) (PBool stale) err
    = inj_outcome Esc Page m u a (challenge Ht Ho c r realm stale).
Proof. exact gen_unauthorized_eq. Qed.
Print Assumptions C11_generated_challenge_is_model.

(* the defaults of unauthorized(req, realm=None, stale='', error=None) *)
Theorem C11_generated_challenge_defaults :
  gen_unauthorized_defaults = [inj_os None; PStr []; PNone]
  /\ PyDigest.truthy (PStr []) = PyDigest.truthy (PBool false).
Proof. split; reflexivity. Qed.
Print Assumptions C11_generated_challenge_defaults.

(* the nonce of a challenge issued at time q_time r is accepted by the
   verification side (check_nonce of the gate, i.e. check_token) at every
   time of the same or the following timeout window -- and at every time
   when tokens do not expire (timeout None or 0); no assumption on the hash *)
Theorem C11_issued_nonce_verifies :
  forall Ht Ho c r realm stale h,
    challenge Ht Ho c r realm stale = Returns (Some h) ->
    exists rl nonce,
      h = header_of c rl nonce (issued_opaque Ho r)
          ++ (if stale then s_stale else []) /\
      forall d e,
        dget k_nonce d = Some nonce ->
        c_secret e = q_secret r -> r_client e = q_client r ->
        c_timeout e = a_timeout c ->
        same_or_next_window (a_timeout c) (q_time r) (r_time e) ->
        check_nonce Ht d e = Some true /\
        check_token Ht nonce (c_secret e) (r_client e) (c_timeout e)
                    (r_time e) = Some true.
Proof. exact issued_nonce_verifies. Qed.
Print Assumptions C11_issued_nonce_verifies.

(* the opaque value of a challenge is the value check_credentials (and so
   the gate) compares the client's opaque field with, for the same host *)
Theorem C11_issued_opaque_verifies :
  forall Ht Hh Ho Unq c r realm stale h,
    challenge Ht Ho c r realm stale = Returns (Some h) ->
    exists rl nonce,
      h = header_of c rl nonce (issued_opaque Ho r)
          ++ (if stale then s_stale else []) /\
      forall d e,
        r_host e = q_host r ->
        (dget k_opaque d = Some (issued_opaque Ho r) ->
         opt_eqb (dget k_opaque d) (Ho (r_host e)) = true) /\
        (check_credentials Hh Ho Unq d e = true ->
         dget k_opaque d = Some (issued_opaque Ho r)) /\
        (forall hdr u, hdr = Some d -> gate Ht Hh Ho Unq hdr e = Run u ->
         dget k_opaque d = Some (issued_opaque Ho r)).
Proof. intros Ht Hh Ho Unq. exact (issued_opaque_verifies Ht Ho Hh Unq). Qed.
Print Assumptions C11_issued_opaque_verifies.

(* issuing never fails with ZeroDivisionError (timeout 0 means "no timeout") *)
Theorem C11_challenge_never_divides_by_zero :
  forall Ht Ho c r realm stale,
    challenge Ht Ho c r realm stale <> Raises "ZeroDivisionError" [].
Proof. exact challenge_total. Qed.
Print Assumptions C11_challenge_never_divides_by_zero.

(* the header text field by field (direct string statement): scheme, realm,
   qop (iff configured non-empty), algorithm, nonce, opaque, stale=true (iff
   asked), each as key="value", separated by commas *)
Theorem C11_challenge_fields_in_order :
  forall Ht Ho c r realm stale h,
    challenge Ht Ho c r realm stale = Returns (Some h) ->
    exists rl nonce,
      realm = Some rl /\ issued_nonce Ht c r = Some nonce /\
      h = s_Digest ++ [32] ++ field k_realm rl ++ [44] ++
          (match a_qop c with
           | Some q => if nonempty q then field k_qop q ++ [44] else []
           | None => []
           end) ++
          field k_algorithm (a_algorithm c) ++ [44] ++
          field k_nonce nonce ++ [44] ++
          field k_opaque (issued_opaque Ho r) ++
          (if stale then [44] ++ k_stale ++ [61] ++ s_true else []).
Proof. exact challenge_fields_in_order. Qed.
Print Assumptions C11_challenge_fields_in_order.

(* ... and a concrete challenge (with and without qop / stale) read back by
   the model of Request.authorization: the fields in that order, with the
   issued values *)
Theorem C11_challenge_parses_example :
  parsed_fields (challenge (fakeH 84) (fakeH 79) (ex_cfg (Some (s2l "auth")))
                           ex_renv (Some (s2l "users")) true)
  = [ (k_realm, s2l "users"); (k_qop, s2l "auth");
      (k_algorithm, s2l "SHA-256");
      (k_nonce, fakeH 84 (s2l "secret1700000400agent"));
      (k_opaque, fakeH 79 (s2l "example.org"));
      (k_stale, s_true); (k_type, s_Digest) ]
  /\
  parsed_fields (challenge (fakeH 84) (fakeH 79) (ex_cfg None)
                           ex_renv (Some (s2l "users")) false)
  = [ (k_realm, s2l "users"); (k_algorithm, s2l "SHA-256");
      (k_nonce, fakeH 84 (s2l "secret1700000400agent"));
      (k_opaque, fakeH 79 (s2l "example.org"));
      (k_type, s_Digest) ].
Proof. exact challenge_parses_example. Qed.
Print Assumptions C11_challenge_parses_example.
