(* C06  Content-Length always equals the bytes actually sent.
   [clen_ok a]: the Content-Length header is emitted exactly when the body is
   non-empty and then is the decimal length of the body. *)
From Coq Require Import ZArith List Bool.
Require Import PW.lib.Val PW.lib.Dec PW.model.Range PW.proofs.RangeProofs.
Import ListNotations.
Open Scope Z_scope.

(* every history of write()/.data on a buffered response keeps the tracked
   length equal to the buffer, and the buffer is initial data ++ all writes *)
Theorem C06_write_history :
  forall init ops,
    let r := fold_left resp_step ops (resp_init init) in
    (pos r = zlen (buf r) /\ clen r = zlen (buf r)) /\ buf r = init ++ writes ops.
Proof. exact response_buffer. Qed.
Print Assumptions C06_write_history.

Theorem C06_response_clen :
  forall init ops ranges, Forall sane_range ranges ->
    clen_ok (response_answer init ops ranges).
Proof. exact response_clen. Qed.
Print Assumptions C06_response_clen.

Theorem C06_fileobj_clen :
  forall content p ranges, 0 <= p <= zlen content -> Forall sane_range ranges ->
    clen_ok (fileobj_answer content p ranges).
Proof. exact fileobj_clen. Qed.
Print Assumptions C06_fileobj_clen.

(* generator with a declared length equal to what it yields *)
Theorem C06_generator_clen :
  forall chunks ranges, Forall sane_range ranges ->
    clen_ok (g_as_answer (generator_answer chunks (zlen (concat chunks)) ranges)).
Proof. exact generator_clen. Qed.
Print Assumptions C06_generator_clen.

(* an emitted Content-Length is a non-negative decimal that parses back to
   the body length, which is then positive *)
Theorem C06_clen_value :
  forall a v, clen_ok a -> content_length a = Some v ->
    val v = zlen (body a) /\ 0 < zlen (body a).
Proof. exact clen_ok_value. Qed.
Print Assumptions C06_clen_value.
