(* C06  Content-Length always equals the bytes actually sent.
   [clen_ok a]: the Content-Length header is emitted exactly when the body is
   non-empty and then is the decimal length of the body. *)
From Coq Require Import ZArith List Bool.
Require Import PW.lib.Val PW.lib.Dec PW.model.Range PW.proofs.RangeProofs.
Import ListNotations.
Open Scope Z_scope.

(* every history of write()/.data on a buffered response keeps the tracked
   length equal to the buffer, and the buffer is initial data ++ all writes *)
Theorem C06_write_history :
  forall init ops,
    let r := fold_left resp_step ops (resp_init init) in
    (pos r = zlen (buf r) /\ clen r = zlen (buf r)) /\ buf r = init ++ writes ops.
Proof. exact response_buffer. Qed.
Print Assumptions C06_write_history.

Theorem C06_response_clen :
  forall init ops ranges, Forall sane_range ranges ->
    clen_ok (response_answer init ops ranges).
Proof. exact response_clen. Qed.
Print Assumptions C06_response_clen.

Theorem C06_fileobj_clen :
  forall content p ranges, 0 <= p <= zlen content -> Forall sane_range ranges ->
    clen_ok (fileobj_answer content p ranges).
Proof. exact fileobj_clen. Qed.
Print Assumptions C06_fileobj_clen.

(* generator with a declared length equal to what it yields *)
Theorem C06_generator_clen :
  forall chunks ranges, Forall sane_range ranges ->
    clen_ok (g_as_answer (generator_answer chunks (zlen (concat chunks)) ranges)).
Proof. exact generator_clen. Qed.
Print Assumptions C06_generator_clen.

(* an emitted Content-Length is a non-negative decimal that parses back to
   the body length, which is then positive *)
Theorem C06_clen_value :
  forall a v, clen_ok a -> content_length a = Some v ->
    val v = zlen (body a) /\ 0 < zlen (body a).
Proof. exact clen_ok_value. Qed.
Print Assumptions C06_clen_value.

(* ---- translator tie: the content-length bookkeeping of the model used
   above (resp_init, resp_step, the history fold, slice_from, fileobj_answer,
   generator_answer) equals the definitions that harness/py2v_clen.py
   generates from the current poorwsgi/response.py (gen/ClenGen.v, rewritten
   on every check run: Response.__init__/write/data/__end_of_response__,
   FileObjResponse.__init__/data/__end_of_response__,
   GeneratorResponse.__init__/__end_of_response__, IBytesIO.read_kilo/
   __iter__), over the Python semantics of lib/Py.v + lib/PyClen.v.
   [E] is str.encode("utf-8"); [buf_pv r]/[clen_pv r] render the model state
   as the IBytesIO object and the integer the code keeps; [enc_file f] is a
   file object with capabilities, content and position. *)
From Coq Require Import String.
Require Import PW.lib.Py PW.lib.PyClen PW.gen.RangeGen PW.proofs.RangeGenEq
  PW.gen.ClenGen PW.proofs.ClenGenEq.
Open Scope string_scope.
Open Scope list_scope.
Open Scope Z_scope.

(* Response(data): str is encoded first, the length is taken of the bytes *)
Theorem C06_generated_response_init_is_model :
  forall E w d ct h st, wd_bytes E w = Some d ->
    gen_response_init E (wd_pv w) ct h st
    = Ok (PTuple [PNone; buf_pv (resp_init d); clen_pv (resp_init d);
                  PInt 0; PNone]).
Proof. exact gen_response_init_eq. Qed.
Print Assumptions C06_generated_response_init_is_model.

(* write(data), for every buffer, position and tracked length *)
Theorem C06_generated_response_write_is_model :
  forall E r w d, wd_bytes E w = Some d ->
    gen_response_write E (buf_pv r) (clen_pv r) (wd_pv w)
    = Ok (PTuple [PNone; buf_pv (resp_step r (Write d));
                  clen_pv (resp_step r (Write d))]).
Proof. exact gen_response_write_eq. Qed.
Print Assumptions C06_generated_response_write_is_model.

(* .data returns the whole buffer and leaves the position at the end *)
Theorem C06_generated_response_data_is_model :
  forall r,
    gen_response_data (buf_pv r)
    = Ok (PTuple [PBytes (buf r); buf_pv (resp_step r ReadData)]).
Proof. exact gen_response_data_eq. Qed.
Print Assumptions C06_generated_response_data_is_model.

(* every history of generated write()/.data calls = the model's fold *)
Theorem C06_generated_write_history_is_model :
  forall E ops rops r, to_rops E ops = Some rops ->
    gen_run E ops (st_pv r) = Ok (st_pv (fold_left resp_step rops r)).
Proof. exact gen_run_eq. Qed.
Print Assumptions C06_generated_write_history_is_model.

(* construction, any history, make_partial, emission: the whole answer *)
Theorem C06_generated_response_answer_is_model :
  forall E w d ops rops ranges,
    wd_bytes E w = Some d -> to_rops E ops = Some rops ->
    Forall sane_range ranges ->
    gen_response_answer E w ops ranges = Some (response_answer d rops ranges).
Proof. exact gen_response_answer_eq. Qed.
Print Assumptions C06_generated_response_answer_is_model.

(* FileObjResponse(f): remembered position (tell() only if seekable) and
   tracked length (fstat size, else BytesIO buffer size, minus the position;
   else unknown = 0), for every readable binary object *)
Theorem C06_generated_fileobj_init_is_model :
  forall f ct h st, f_readable f = true -> f_text f = false ->
    gen_fileobj_init (enc_file f) ct h st
    = Ok (PTuple [PNone; enc_file f; PInt (fo_pos f); PInt (fo_clen f);
                  PInt 0; PNone]).
Proof. exact gen_fileobj_init_eq. Qed.
Print Assumptions C06_generated_fileobj_init_is_model.

(* FileObjResponse.data seeks back to the remembered position first *)
Theorem C06_generated_fileobj_data_is_model :
  forall f p, f_seekable f = true -> f_readable f = true -> 0 <= p ->
    gen_fileobj_data (enc_file f) (PInt p)
    = Ok (PTuple [PBytes (zdrop p (f_data f));
                  enc_file (set_pos f (p + zlen (zdrop p (f_data f))))]).
Proof. exact gen_fileobj_data_eq. Qed.
Print Assumptions C06_generated_fileobj_data_is_model.

(* seekable object of known size, left at ANY position q between
   construction and emission (.data, the handler): the whole answer *)
Theorem C06_generated_fileobj_answer_is_model :
  forall f q ranges,
    f_readable f = true -> f_text f = false -> f_seekable f = true ->
    size_known f -> 0 <= f_pos f <= zlen (f_data f) ->
    Forall sane_range ranges ->
    gen_fileobj_answer f q ranges
    = Some (fileobj_answer (f_data f) (f_pos f) ranges).
Proof. exact gen_fileobj_answer_eq. Qed.
Print Assumptions C06_generated_fileobj_answer_is_model.

(* GeneratorResponse: declared length, range generator call *)
Theorem C06_generated_generator_answer_is_model :
  forall chunks declared ranges,
    gen_generator_answer chunks declared ranges
    = Some (generator_answer chunks declared ranges).
Proof. exact gen_generator_answer_eq. Qed.
Print Assumptions C06_generated_generator_answer_is_model.

(* iterating the returned IBytesIO (read_kilo until b'') hands over exactly
   the bytes from its position, in non-empty chunks of at most 1024 *)
Theorem C06_generated_body_iteration_is_model :
  forall f fuel,
    f_readable f = true -> 0 <= f_pos f ->
    (List.length (rest_of f) < fuel)%nat ->
    exists chunks,
      gen_ibytesio_iter (enc_file f) fuel
      = Ok (PTuple [PList (map PBytes chunks);
                    enc_file (set_pos f (f_pos f + zlen (rest_of f)))])
      /\ Some (List.concat chunks) = sent (enc_file f)
      /\ Forall (fun c => c <> [] /\ zlen c <= 1024) chunks.
Proof. exact gen_ibytesio_iter_eq. Qed.
Print Assumptions C06_generated_body_iteration_is_model.

(* ---- a response object answers at most once (model/Emit.v): the object
   carries a flag; a call emits (start_response through __start_response__,
   then the body of __end_of_response__, both arbitrary effects [start] /
   [finish] on the rest of the state, each of which may raise) only while
   the flag is unset and sets it in every outcome.  For every number of
   calls on a fresh object exactly the first one emits -- the state after
   n+1 calls is the state after ONE emission, so no Content-Length/body pair
   is ever sent twice --, and every later call raises
   RuntimeError('Response can be used only once!'), whatever the first did. *)
Require Import PW.model.Emit.
Theorem C06_response_answers_once :
  forall (St X B : Type) (start : St -> St * option X)
         (finish : St -> St * (B + X)) n s,
    Emit.calls St X B start finish (S n) {| Emit.done := false; Emit.rest := s |}
    = ({| Emit.done := true;
          Emit.rest := fst (Emit.emit St X B start finish s) |},
       snd (Emit.emit St X B start finish s)
       :: repeat (Fails (RuntimeError "Response can be used only once!")) n).
Proof. exact Emit.answers_once. Qed.
Print Assumptions C06_response_answers_once.

(* ---- translator tie: [call_once] above equals the statement term that
   harness/py2v_call.py generates from the current poorwsgi/response.py
   BaseResponse.__call__ (gen/CallGen.v, rewritten on every check run) under
   the statement semantics of lib/PyCall.v (if / raise / try-finally /
   attribute store / self-method calls), for every object state and every
   pair of effects, including the paths on which an effect raises; likewise
   Declined.__call__ (no start_response call, object untouched, `()`) and
   BaseResponse.__end_of_response__ (no effect, b''), and the inheritance
   facts that make these the methods that run (Declined -> NoContentResponse
   -> BaseResponse, neither redefining the other entry points). *)
Require Import PW.lib.PyCall PW.gen.CallGen PW.proofs.CallGenEq.
Theorem C06_generated_response_call_is_model :
  forall (St X B : Type) (start : St -> St * option X)
         (finish : St -> St * (B + X)) (o : Emit.obj St),
    PyCall.run St X B start finish gen_response_call o
    = (fst (Emit.call_once St X B start finish o),
       PyCall.of_result X B (snd (Emit.call_once St X B start finish o))).
Proof. exact gen_response_call_eq. Qed.
Print Assumptions C06_generated_response_call_is_model.

Theorem C06_generated_declined_call_is_model :
  forall (St X B : Type) (start : St -> St * option X)
         (finish : St -> St * (B + X)) (o : Emit.obj St),
    PyCall.run St X B start finish gen_declined_call o
    = (Emit.declined_call St o, PyCall.Ret PyCall.VTuple0).
Proof. exact gen_declined_call_eq. Qed.
Print Assumptions C06_generated_declined_call_is_model.

Theorem C06_generated_base_end_is_model :
  forall (St X B : Type) (start : St -> St * option X)
         (finish : St -> St * (B + X)) (o : Emit.obj St),
    PyCall.run St X B start finish gen_base_end o
    = (o, PyCall.Ret (PyCall.VBytes [])).
Proof. exact gen_base_end_eq. Qed.
Print Assumptions C06_generated_base_end_is_model.

Theorem C06_generated_call_resolution_is_model :
  gen_response_call_arity = 2%nat /\
  gen_bases_BaseResponse = [] /\
  gen_bases_NoContentResponse = ["BaseResponse"] /\
  gen_bases_Declined = ["NoContentResponse"] /\
  gen_own_definitions = [("NoContentResponse", "__call__", 0%nat);
                         ("NoContentResponse", "__end_of_response__", 0%nat);
                         ("Declined", "__end_of_response__", 0%nat)].
Proof. split; [exact gen_response_call_arity_eq | exact gen_call_resolution_eq]. Qed.
Print Assumptions C06_generated_call_resolution_is_model.
