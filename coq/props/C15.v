(* C15  Built-in pages never emit request data as markup.
   Statements only.  gen/PagesGen.v is REGENERATED from poorwsgi/results.py by
   harness/py2pages.py at the start of every check run: the nine
   [page_<name>_guarded] obligations below are therefore re-checked against
   what the source says now (removing one html_escape call turns the
   corresponding hole into [Hole Tainted false _] and the obligation fails). *)
From Coq Require Import ZArith List Bool.
Require Import PW.lib.Val PW.model.Pages PW.proofs.PagesProofs PW.gen.PagesGen.
Import ListNotations.
Open Scope Z_scope.

(* table tie: the table read from the source is the table of the model *)
Theorem C15_escape_table_tie : gen_escape_table = escape_table.
Proof. exact escape_table_tie. Qed.
Print Assumptions C15_escape_table_tie.

(* escaped text never changes the tokenizer state nor emits structure events,
   in text, RCDATA and quoted attribute values *)
Theorem C15_escape_inert :
  forall s st,
    match st with
    | Text | RCDATA _ | AttrValDQ _ _ | AttrValSQ _ _ => True
    | _ => False
    end ->
    tok st (html_escape s) = (st, []).
Proof. exact escape_inert. Qed.
Print Assumptions C15_escape_inert.

(* the output of html_escape contains no < > double or single quote *)
Theorem C15_escape_no_markup :
  forall s, Forall (fun c => c <> 60 /\ c <> 62 /\ c <> 34 /\ c <> 39)
                   (html_escape s).
Proof. exact html_escape_no_markup. Qed.
Print Assumptions C15_escape_no_markup.

(* token characters (RFC 9110 tchar: the method token, numbers) are inert in
   text ... *)
Theorem C15_token_chars_inert_in_text :
  forall s, forallb is_tchar s = true -> tok Text s = (Text, []).
Proof. exact token_chars_inert_in_text. Qed.
Print Assumptions C15_token_chars_inert_in_text.

(* ... and in RCDATA and double-quoted attribute values *)
Theorem C15_token_chars_inert :
  forall s st, safe_ctx (ctx_of st) = true -> forallb is_tchar s = true ->
    tok st s = (st, []).
Proof. exact token_chars_inert. Qed.
Print Assumptions C15_token_chars_inert.

(* main theorem, every page term, every pair of valuations, any number of
   rows: the element/attribute structure of a guarded page is independent of
   request data and file names *)
Theorem C15_noninterference :
  forall p, guarded p = true ->
    forall env1 env2, same_trusted p env1 env2 ->
      events (render p env1) = events (render p env2).
Proof. exact noninterference. Qed.
Print Assumptions C15_noninterference.

Theorem C15_noninterference_state :
  forall p, guarded p = true ->
    forall env1 env2, same_trusted p env1 env2 ->
      tok Text (render p env1) = tok Text (render p env2).
Proof. exact noninterference_state. Qed.
Print Assumptions C15_noninterference_state.

(* ---- the nine generated obligations (source tie) and what they give *)

Theorem C15_page_internal_server_error_guarded : guarded page_internal_server_error = true.
Proof. exact page_internal_server_error_guarded. Qed.
Print Assumptions C15_page_internal_server_error_guarded.

Theorem C15_page_internal_server_error_structure :
  forall env1 env2, same_trusted page_internal_server_error env1 env2 ->
    events (render page_internal_server_error env1) = events (render page_internal_server_error env2).
Proof. exact (noninterference page_internal_server_error page_internal_server_error_guarded). Qed.
Print Assumptions C15_page_internal_server_error_structure.

Theorem C15_page_bad_request_guarded : guarded page_bad_request = true.
Proof. exact page_bad_request_guarded. Qed.
Print Assumptions C15_page_bad_request_guarded.

Theorem C15_page_bad_request_structure :
  forall env1 env2, same_trusted page_bad_request env1 env2 ->
    events (render page_bad_request env1) = events (render page_bad_request env2).
Proof. exact (noninterference page_bad_request page_bad_request_guarded). Qed.
Print Assumptions C15_page_bad_request_structure.

Theorem C15_page_unauthorized_guarded : guarded page_unauthorized = true.
Proof. exact page_unauthorized_guarded. Qed.
Print Assumptions C15_page_unauthorized_guarded.

Theorem C15_page_unauthorized_structure :
  forall env1 env2, same_trusted page_unauthorized env1 env2 ->
    events (render page_unauthorized env1) = events (render page_unauthorized env2).
Proof. exact (noninterference page_unauthorized page_unauthorized_guarded). Qed.
Print Assumptions C15_page_unauthorized_structure.

Theorem C15_page_forbidden_guarded : guarded page_forbidden = true.
Proof. exact page_forbidden_guarded. Qed.
Print Assumptions C15_page_forbidden_guarded.

Theorem C15_page_forbidden_structure :
  forall env1 env2, same_trusted page_forbidden env1 env2 ->
    events (render page_forbidden env1) = events (render page_forbidden env2).
Proof. exact (noninterference page_forbidden page_forbidden_guarded). Qed.
Print Assumptions C15_page_forbidden_structure.

Theorem C15_page_not_found_guarded : guarded page_not_found = true.
Proof. exact page_not_found_guarded. Qed.
Print Assumptions C15_page_not_found_guarded.

Theorem C15_page_not_found_structure :
  forall env1 env2, same_trusted page_not_found env1 env2 ->
    events (render page_not_found env1) = events (render page_not_found env2).
Proof. exact (noninterference page_not_found page_not_found_guarded). Qed.
Print Assumptions C15_page_not_found_structure.

Theorem C15_page_method_not_allowed_guarded : guarded page_method_not_allowed = true.
Proof. exact page_method_not_allowed_guarded. Qed.
Print Assumptions C15_page_method_not_allowed_guarded.

Theorem C15_page_method_not_allowed_structure :
  forall env1 env2, same_trusted page_method_not_allowed env1 env2 ->
    events (render page_method_not_allowed env1) = events (render page_method_not_allowed env2).
Proof. exact (noninterference page_method_not_allowed page_method_not_allowed_guarded). Qed.
Print Assumptions C15_page_method_not_allowed_structure.

Theorem C15_page_not_implemented_guarded : guarded page_not_implemented = true.
Proof. exact page_not_implemented_guarded. Qed.
Print Assumptions C15_page_not_implemented_guarded.

Theorem C15_page_not_implemented_structure :
  forall env1 env2, same_trusted page_not_implemented env1 env2 ->
    events (render page_not_implemented env1) = events (render page_not_implemented env2).
Proof. exact (noninterference page_not_implemented page_not_implemented_guarded). Qed.
Print Assumptions C15_page_not_implemented_structure.

Theorem C15_page_directory_index_guarded : guarded page_directory_index = true.
Proof. exact page_directory_index_guarded. Qed.
Print Assumptions C15_page_directory_index_guarded.

Theorem C15_page_directory_index_structure :
  forall env1 env2, same_trusted page_directory_index env1 env2 ->
    events (render page_directory_index env1) = events (render page_directory_index env2).
Proof. exact (noninterference page_directory_index page_directory_index_guarded). Qed.
Print Assumptions C15_page_directory_index_structure.

Theorem C15_page_debug_info_guarded : guarded page_debug_info = true.
Proof. exact page_debug_info_guarded. Qed.
Print Assumptions C15_page_debug_info_guarded.

Theorem C15_page_debug_info_structure :
  forall env1 env2, same_trusted page_debug_info env1 env2 ->
    events (render page_debug_info env1) = events (render page_debug_info env2).
Proof. exact (noninterference page_debug_info page_debug_info_guarded). Qed.
Print Assumptions C15_page_debug_info_structure.

(* ---- T-tie of the escape primitive: HTML_ESCAPE_TABLE and html_escape of
   results.py, regenerated by harness/py2v_escape.py (gen/EscapeGen.v) *)
Require Import PW.lib.PyEscape PW.gen.EscapeGen PW.proofs.EscapeGenEq.

(* the table of the source = the table of the model (same items, same order;
   the keys are distinct, so the order carries no meaning) *)
Theorem C15_generated_escape_table_is_model :
  gen_html_escape_table = escape_table /\
  forall c, py_dict_get_d gen_html_escape_table c [c] = esc1 c.
Proof. exact (conj gen_escape_table_eq gen_escape_lookup_eq). Qed.
Print Assumptions C15_generated_escape_table_is_model.

(* ''.join(HTML_ESCAPE_TABLE.get(c, c) for c in text) = the model's
   html_escape, for every text *)
Theorem C15_generated_html_escape_is_model :
  forall text, gen_html_escape text = html_escape text.
Proof. exact gen_html_escape_eq. Qed.
Print Assumptions C15_generated_html_escape_is_model.
