(* C14  Headers behave as an ordered, case-insensitive multimap with safe
   transcoding.  Statements only; every proof is [exact <lemma of
   proofs/HeadersProofs.v>].

   Vocabulary (coq/model/Headers.v):
     step s o / run s ops      the code: one operation / a history, giving the
                               stored pairs and the outcome after every step
     spec_step enc / srun enc  the reference multimap written from the
                               property text: insertion-ordered entries, names
                               compared ignoring ASCII case, a supplied text t
                               stored as [enc t]; arguments that are not
                               encodable str are SRejected, an absent name or
                               a refused duplicate is SKeyError
     out_rel                   SRejected = raises TypeError or ValueError,
                               SKeyError = raises KeyError, SRet o = returns o
     benign o                  o is not one of the two operation shapes on
                               which the code is refuted below
   str.lower() is modelled for ASCII A-Z only (names are US-ASCII tokens). *)
From Coq Require Import ZArith List Bool.
Require Import PW.lib.Val PW.model.Headers PW.proofs.HeadersProofs.
Import ListNotations.
Open Scope Z_scope.

(* ---- transcoding *)

(* strict UTF-8 decoding inverts encoding on every str of scalar values *)
Theorem C14_utf8_roundtrip :
  forall s, forallb is_scalar s = true ->
    utf8_decode (utf8_encode s) = Some s.
Proof. exact utf8_roundtrip. Qed.
Print Assumptions C14_utf8_roundtrip.

(* Headers.utf8(Headers.iso88591(s)) == s, and iso88591 does not raise *)
Theorem C14_utf8_of_iso :
  forall s, forallb is_scalar s = true ->
    iso88591 (AStr s) = Ok (utf8_encode s) /\ utf8 (utf8_encode s) = s.
Proof. exact utf8_of_iso. Qed.
Print Assumptions C14_utf8_of_iso.

(* every stored name and value is latin-1 (all code points < 256), after
   every step of every history of operations on Python strs *)
Theorem C14_stored_is_latin1 :
  forall ops s, forallb op_wf ops = true -> latin1_state s = true ->
    Forall (fun r => latin1_state (fst r) = true) (run s ops).
Proof. exact run_latin1. Qed.
Print Assumptions C14_stored_is_latin1.

(* ---- the multimap *)

(* FULL STATEMENT (false of the code, see the three _refuted theorems):
     forall ops s,
       Forall2 (fun a b => fst a = fst b /\ out_rel (snd a) (snd b))
               (run s ops) (srun utf8_encode s ops).
   PROVED: the same for every history all of whose operations are benign,
   from every start state.  Missing: histories containing (a) a None/int
   name given to add, [], del, setdefault, get, get_all, in (the code raises
   AttributeError, the reference wants TypeError/ValueError) or (b)
   h[name] = value with an acceptable name and an unacceptable value (the
   code deletes the entries of name before it raises). *)
Theorem C14_refines_multimap_partial :
  forall ops s, forallb benign ops = true ->
    Forall2 (fun a b => fst a = fst b /\ out_rel (snd a) (snd b))
            (run s ops) (srun utf8_encode s ops).
Proof. exact run_refines. Qed.
Print Assumptions C14_refines_multimap_partial.

Theorem C14_refines_all_operations_refuted :
  exists s o,
    ~ (fst (step s o) = fst (spec_step utf8_encode s o) /\
       out_rel (snd (step s o)) (snd (spec_step utf8_encode s o))).
Proof. exact refines_all_operations_refuted. Qed.
Print Assumptions C14_refines_all_operations_refuted.

(* Headers().add(5, 'x') raises AttributeError *)
Theorem C14_nonstr_name_attributeerror_refuted :
  exists s n v,
    snd (spec_step utf8_encode s (OAdd n v)) = SRejected /\
    step s (OAdd n v) = (s, Raised AttributeError).
Proof. exact nonstr_name_attributeerror_refuted. Qed.
Print Assumptions C14_nonstr_name_attributeerror_refuted.

(* h = Headers([('X','1')], strict=False); h['x'] = 5 raises TypeError and
   leaves h empty *)
Theorem C14_set_rejected_value_deletes_refuted :
  exists s n v,
    spec_step utf8_encode s (OSet n v) = (s, SRejected) /\
    step s (OSet n v) = ([], Raised TypeError) /\ s <> [].
Proof. exact set_rejected_value_deletes_refuted. Qed.
Print Assumptions C14_set_rejected_value_deletes_refuted.

(* FULL STATEMENT: whatever the reference rejects (a non-str or unencodable
   name or value, an empty header) raises TypeError or ValueError and
   leaves the collection unchanged.
   PROVED for every operation and state: it raises TypeError, ValueError or
   AttributeError (never returns, never KeyError) ... *)
Theorem C14_non_string_rejected_partial :
  forall s o, snd (spec_step utf8_encode s o) = SRejected ->
    exists e, snd (step s o) = Raised e /\
              (e = TypeError \/ e = ValueError \/ e = AttributeError).
Proof. exact invalid_raises. Qed.
Print Assumptions C14_non_string_rejected_partial.

(* ... and an operation that raises, whatever it raises, stores nothing: the
   state is unchanged, or the operation is h[n] = v and the state is that
   after del h[n].  Missing for the full statement: the second disjunct. *)
Theorem C14_raise_never_stores_partial :
  forall s o e, snd (step s o) = Raised e ->
    fst (step s o) = s \/
    exists n v, o = OSet n v /\ delitem s n = Ok (fst (step s o)).
Proof. exact raise_never_stores. Qed.
Print Assumptions C14_raise_never_stores_partial.

(* Every stored name and value is the UTF-8 encoding (read as latin-1) of
   the supplied text: after every step of every history the stored pairs
   are, entry by entry and in the same order, the image of the reference
   multimap kept over the supplied TEXTS (enc := tid, the identity), and the
   code raises KeyError / TypeError-or-ValueError exactly where that
   multimap refuses / rejects (okind, skind: 0 returns, 1 KeyError,
   2 TypeError|ValueError).
   PROVED for benign histories without strict=False construction (which
   stores its input as it is).  Missing: as for refines_multimap. *)
Theorem C14_stored_is_utf8_of_supplied_text_partial :
  forall ops mt,
    forallb benign ops = true -> forallb strict_op ops = true ->
    Forall2 (fun a b =>
               fst a = map (fun kv => (utf8_encode (fst kv),
                                       utf8_encode (snd kv))) (fst b) /\
               okind (snd a) = skind (snd b))
            (run (map (fun kv => (utf8_encode (fst kv), utf8_encode (snd kv)))
                      mt) ops)
            (srun (fun t => t) mt ops).
Proof. exact run_stores_utf8_of_texts. Qed.
Print Assumptions C14_stored_is_utf8_of_supplied_text_partial.

(* ---- the named consequences, on the code directly *)

(* lookups and deletion ignore the case of the name they are given *)
Theorem C14_lookup_ignores_case :
  forall s n1 n2, lower n1 = lower n2 ->
    step s (OGet (AStr n1)) = step s (OGet (AStr n2)) /\
    step s (OGetAll (AStr n1)) = step s (OGetAll (AStr n2)) /\
    step s (OContains (AStr n1)) = step s (OContains (AStr n2)) /\
    step s (OGetItem (AStr n1)) = step s (OGetItem (AStr n2)) /\
    step s (ODel (AStr n1)) = step s (ODel (AStr n2)).
Proof. exact lookup_ignores_case. Qed.
Print Assumptions C14_lookup_ignores_case.

(* assignment replaces all entries of that name, whatever their casing *)
Theorem C14_set_replaces_all :
  forall s n v, encodable n = true -> encodable v = true ->
    let s' := filter (fun kv => negb (same_name (fst kv) (utf8_encode n))) s
              ++ [(utf8_encode n, utf8_encode v)] in
    step s (OSet (AStr n) (AStr v)) = (s', ONone) /\
    forall n', lower n' = lower n ->
      step s' (OGetAll (AStr n')) = (s', OStrs [utf8_encode v]).
Proof. exact set_replaces_all. Qed.
Print Assumptions C14_set_replaces_all.

(* deletion removes all and only the entries of that name *)
Theorem C14_del_removes_all_only :
  forall s n, encodable n = true ->
    step s (ODel (AStr n)) =
    (filter (fun kv => negb (same_name (fst kv) (utf8_encode n))) s, ONone).
Proof. exact del_removes_all_only. Qed.
Print Assumptions C14_del_removes_all_only.

(* add refuses a duplicate of any name except Set-Cookie in any casing *)
Theorem C14_add_refuses_duplicate_except_set_cookie :
  forall s n v, encodable n = true -> encodable v = true ->
    step s (OAdd (AStr n) (AStr v)) =
    if negb (lz_eqb (lower n) s_set_cookie) &&
       existsb (fun kv => same_name (fst kv) (utf8_encode n)) s
    then (s, Raised KeyError)
    else (s ++ [(utf8_encode n, utf8_encode v)], ONone).
Proof. exact add_refuses_duplicate_except_set_cookie. Qed.
Print Assumptions C14_add_refuses_duplicate_except_set_cookie.

(* iteration is insertion order: items() is the stored list, and every
   operation other than re-construction only removes entries and/or appends
   one at the end *)
Theorem C14_iteration_is_insertion_order :
  forall s o, is_init o = false ->
    step s OItems = (s, OPairs s) /\
    exists p new, fst (step s o) = filter p s ++ new /\ (length new <= 1)%nat.
Proof. exact iteration_is_insertion_order. Qed.
Print Assumptions C14_iteration_is_insertion_order.
