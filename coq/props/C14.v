(* C14  Headers behave as an ordered, case-insensitive multimap with safe
   transcoding.  Statements only; every proof is [exact <lemma of
   proofs/HeadersProofs.v>].

   Vocabulary (coq/model/Headers.v):
     step s o / run s ops      the code: one operation / a history, giving the
                               stored pairs and the outcome after every step
     spec_step enc / srun enc  the reference multimap written from the
                               property text: insertion-ordered entries, names
                               compared ignoring ASCII case, a supplied text t
                               stored as [enc t]; arguments that are not
                               encodable str are SRejected, an absent name or
                               a refused duplicate is SKeyError
     out_rel                   SRejected = raises TypeError or ValueError,
                               SKeyError = raises KeyError, SRet o = returns o
   str.lower() is modelled for ASCII A-Z only (names are US-ASCII tokens). *)
From Coq Require Import ZArith List Bool.
Require Import PW.lib.Val PW.model.Headers PW.proofs.HeadersProofs.
Import ListNotations.
Open Scope Z_scope.

(* ---- transcoding *)

(* strict UTF-8 decoding inverts encoding on every str of scalar values *)
Theorem C14_utf8_roundtrip :
  forall s, forallb is_scalar s = true ->
    utf8_decode (utf8_encode s) = Some s.
Proof. exact utf8_roundtrip. Qed.
Print Assumptions C14_utf8_roundtrip.

(* Headers.utf8(Headers.iso88591(s)) == s, and iso88591 does not raise *)
Theorem C14_utf8_of_iso :
  forall s, forallb is_scalar s = true ->
    iso88591 (AStr s) = Ok (utf8_encode s) /\ utf8 (utf8_encode s) = s.
Proof. exact utf8_of_iso. Qed.
Print Assumptions C14_utf8_of_iso.

(* every stored name and value is latin-1 (all code points < 256), after
   every step of every history of operations on Python strs *)
Theorem C14_stored_is_latin1 :
  forall ops s, forallb op_wf ops = true -> latin1_state s = true ->
    Forall (fun r => latin1_state (fst r) = true) (run s ops).
Proof. exact run_latin1. Qed.
Print Assumptions C14_stored_is_latin1.

(* ---- the multimap *)

(* The code refines the reference multimap: for EVERY history of operations
   (hostile arguments included) from every start state, the stored pairs and
   the outcome after every step are those of the reference. *)
Theorem C14_refines_multimap :
  forall ops s,
    Forall2 (fun a b => fst a = fst b /\ out_rel (snd a) (snd b))
            (run s ops) (srun utf8_encode s ops).
Proof. exact run_refines. Qed.
Print Assumptions C14_refines_multimap.

(* whatever the reference rejects (a non-str or unencodable name or value,
   an empty header) raises TypeError or ValueError ... *)
Theorem C14_non_string_rejected :
  forall s o, snd (spec_step utf8_encode s o) = SRejected ->
    snd (step s o) = Raised TypeError \/ snd (step s o) = Raised ValueError.
Proof. exact invalid_raises. Qed.
Print Assumptions C14_non_string_rejected.

(* ... and an operation that raises, whatever it raises, leaves the
   collection unchanged *)
Theorem C14_raise_never_stores :
  forall s o e, snd (step s o) = Raised e -> fst (step s o) = s.
Proof. exact raise_never_stores. Qed.
Print Assumptions C14_raise_never_stores.

(* Every stored name and value is the UTF-8 encoding (read as latin-1) of
   the supplied text: after every step of every history the stored pairs
   are, entry by entry and in the same order, the image of the reference
   multimap kept over the supplied TEXTS (enc := tid, the identity), and the
   code raises KeyError / TypeError-or-ValueError exactly where that
   multimap refuses / rejects (okind, skind: 0 returns, 1 KeyError,
   2 TypeError|ValueError).
   For every history without strict=False construction (which stores its
   input as it is, by design). *)
Theorem C14_stored_is_utf8_of_supplied_text :
  forall ops mt,
    forallb strict_op ops = true ->
    Forall2 (fun a b =>
               fst a = map (fun kv => (utf8_encode (fst kv),
                                       utf8_encode (snd kv))) (fst b) /\
               okind (snd a) = skind (snd b))
            (run (map (fun kv => (utf8_encode (fst kv), utf8_encode (snd kv)))
                      mt) ops)
            (srun (fun t => t) mt ops).
Proof. exact run_stores_utf8_of_texts. Qed.
Print Assumptions C14_stored_is_utf8_of_supplied_text.

(* ---- the named consequences, on the code directly *)

(* lookups and deletion ignore the case of the name they are given *)
Theorem C14_lookup_ignores_case :
  forall s n1 n2, lower n1 = lower n2 ->
    step s (OGet (AStr n1)) = step s (OGet (AStr n2)) /\
    step s (OGetAll (AStr n1)) = step s (OGetAll (AStr n2)) /\
    step s (OContains (AStr n1)) = step s (OContains (AStr n2)) /\
    step s (OGetItem (AStr n1)) = step s (OGetItem (AStr n2)) /\
    step s (ODel (AStr n1)) = step s (ODel (AStr n2)).
Proof. exact lookup_ignores_case. Qed.
Print Assumptions C14_lookup_ignores_case.

(* assignment replaces all entries of that name, whatever their casing *)
Theorem C14_set_replaces_all :
  forall s n v, encodable n = true -> encodable v = true ->
    let s' := filter (fun kv => negb (same_name (fst kv) (utf8_encode n))) s
              ++ [(utf8_encode n, utf8_encode v)] in
    step s (OSet (AStr n) (AStr v)) = (s', ONone) /\
    forall n', lower n' = lower n ->
      step s' (OGetAll (AStr n')) = (s', OStrs [utf8_encode v]).
Proof. exact set_replaces_all. Qed.
Print Assumptions C14_set_replaces_all.

(* deletion removes all and only the entries of that name *)
Theorem C14_del_removes_all_only :
  forall s n, encodable n = true ->
    step s (ODel (AStr n)) =
    (filter (fun kv => negb (same_name (fst kv) (utf8_encode n))) s, ONone).
Proof. exact del_removes_all_only. Qed.
Print Assumptions C14_del_removes_all_only.

(* add refuses a duplicate of any name except Set-Cookie in any casing *)
Theorem C14_add_refuses_duplicate_except_set_cookie :
  forall s n v, encodable n = true -> encodable v = true ->
    step s (OAdd (AStr n) (AStr v)) =
    if negb (lz_eqb (lower n) s_set_cookie) &&
       existsb (fun kv => same_name (fst kv) (utf8_encode n)) s
    then (s, Raised KeyError)
    else (s ++ [(utf8_encode n, utf8_encode v)], ONone).
Proof. exact add_refuses_duplicate_except_set_cookie. Qed.
Print Assumptions C14_add_refuses_duplicate_except_set_cookie.

(* iteration is insertion order: items() is the stored list, and every
   operation other than re-construction only removes entries and/or appends
   one at the end *)
Theorem C14_iteration_is_insertion_order :
  forall s o, is_init o = false ->
    step s OItems = (s, OPairs s) /\
    exists p new, fst (step s o) = filter p s ++ new /\ (length new <= 1)%nat.
Proof. exact iteration_is_insertion_order. Qed.
Print Assumptions C14_iteration_is_insertion_order.

(* ---- translator tie: the methods of class Headers, regenerated from
   /repo/poorwsgi/headers.py on every run (gen/HeadersGen.v, by
   harness/py2v_headers.py over lib/PyHeaders.v), equal the model's
   operations.  Domain: the stored list is [emb_state s] for EVERY model
   state s, the arguments are the images of EVERY value of the model's
   argument types (str, bytes, None, int; negotiation list or tuple;
   **kwargs dict; constructor input None / list / tuple / set / dict /
   other object).  [emb_step (step s o)] = (the stored list afterwards,
   the value returned or the exception raised); it is compared also when
   the method raises. *)
Require Import PW.lib.PyHeaders PW.gen.HeadersGen PW.proofs.HeadersGenEq.

Theorem C14_generated_getitem_is_model :
  forall s n, gen_getitem (emb_arg n) (emb_state s) =
              emb_step (step s (OGetItem n)).
Proof. exact gen_getitem_is_model. Qed.
Print Assumptions C14_generated_getitem_is_model.

Theorem C14_generated_delitem_is_model :
  forall s n, gen_delitem (emb_arg n) (emb_state s) =
              emb_step (step s (ODel n)).
Proof. exact gen_delitem_is_model. Qed.
Print Assumptions C14_generated_delitem_is_model.

Theorem C14_generated_get_all_is_model :
  forall s n, gen_get_all (emb_arg n) (emb_state s) =
              emb_step (step s (OGetAll n)).
Proof. exact gen_get_all_is_model. Qed.
Print Assumptions C14_generated_get_all_is_model.

Theorem C14_generated_add_is_model :
  forall s n v, gen_add (emb_arg n) (emb_arg v) (emb_state s) =
                emb_step (step s (OAdd n v)).
Proof. exact gen_add_is_model. Qed.
Print Assumptions C14_generated_add_is_model.

Theorem C14_generated_setitem_is_model :
  forall s n v, gen_setitem (emb_arg n) (emb_arg v) (emb_state s) =
                emb_step (step s (OSet n v)).
Proof. exact gen_setitem_is_model. Qed.
Print Assumptions C14_generated_setitem_is_model.

Theorem C14_generated_setdefault_is_model :
  forall s n v, gen_setdefault (emb_arg n) (emb_arg v) (emb_state s) =
                emb_step (step s (OSetdefault n v)).
Proof. exact gen_setdefault_is_model. Qed.
Print Assumptions C14_generated_setdefault_is_model.

(* value: a plain argument or a negotiation list (tup = false) / tuple
   (tup = true); ps: the keyword parameters *)
Theorem C14_generated_add_header_is_model :
  forall s n tup v ps,
    gen_add_header (emb_arg n) (emb_hval tup v) (emb_params ps) (emb_state s) =
    emb_step (step s (OAddHeader n v ps)).
Proof. exact gen_add_header_is_model. Qed.
Print Assumptions C14_generated_add_header_is_model.

(* Headers(c) -- strict defaults to True (gen_init_default_2 is the default
   value in the source); k: list, tuple or set *)
Theorem C14_generated_init_is_model :
  forall s k c,
    gen_init (emb_ctor emb_arg k c) gen_init_default_2 (emb_state s) =
    emb_step (step s (OInit c)).
Proof. exact gen_init_is_model. Qed.
Print Assumptions C14_generated_init_is_model.

(* Headers(c, strict=False), c holding str pairs *)
Theorem C14_generated_init_raw_is_model :
  forall s k c,
    gen_init (emb_ctor VStr k c) (VBool false) (emb_state s) =
    emb_step (step s (OInitRaw c)).
Proof. exact gen_init_raw_is_model. Qed.
Print Assumptions C14_generated_init_raw_is_model.

Theorem C14_generated_len_is_model :
  forall s, gen_len (emb_state s) = emb_step (step s OLen).
Proof. exact gen_len_is_model. Qed.
Print Assumptions C14_generated_len_is_model.

Theorem C14_generated_names_is_model :
  forall s, gen_names (emb_state s) = emb_step (step s ONames).
Proof. exact gen_names_is_model. Qed.
Print Assumptions C14_generated_names_is_model.

Theorem C14_generated_keys_is_model :
  forall s, gen_keys (emb_state s) = emb_step (step s ONames).
Proof. exact gen_keys_is_model. Qed.
Print Assumptions C14_generated_keys_is_model.

Theorem C14_generated_values_is_model :
  forall s, gen_values (emb_state s) = emb_step (step s OValues).
Proof. exact gen_values_is_model. Qed.
Print Assumptions C14_generated_values_is_model.

Theorem C14_generated_items_is_model :
  forall s, gen_items (emb_state s) = emb_step (step s OItems).
Proof. exact gen_items_is_model. Qed.
Print Assumptions C14_generated_items_is_model.

(* the inherited collections.abc.Mapping.get / __contains__ (fixed
   definitions of lib/PyHeaders.v) over the generated __getitem__ *)
Theorem C14_generated_get_is_model :
  forall s n, PyHeaders.mapping_get gen_getitem (emb_arg n) VNone (emb_state s) =
              emb_step (step s (OGet n)).
Proof. exact mapping_get_is_model. Qed.
Print Assumptions C14_generated_get_is_model.

Theorem C14_generated_contains_is_model :
  forall s n, mapping_contains gen_getitem (emb_arg n) (emb_state s) =
              emb_step (step s (OContains n)).
Proof. exact mapping_contains_is_model. Qed.
Print Assumptions C14_generated_contains_is_model.

(* every operation, and every history of operations on one object *)
Theorem C14_generated_step_is_model :
  forall k tup s o, gen_step k tup o (emb_state s) = emb_step (step s o).
Proof. exact gen_step_is_model. Qed.
Print Assumptions C14_generated_step_is_model.

Theorem C14_generated_run_is_model :
  forall k tup ops s,
    gen_run k tup (emb_state s) ops = map emb_step (run s ops).
Proof. exact gen_run_is_model. Qed.
Print Assumptions C14_generated_run_is_model.

(* ---- translator tie for the two static methods (harness/py2v_latin.py ->
   gen/LatinGen.v, regenerated from poorwsgi/headers.py on every run): the
   primitive [p_iso88591] the theorems above rest on is itself generated
   from the source, and so is [utf8] ---- *)
Require Import PW.lib.PyLatin PW.gen.LatinGen PW.proofs.LatinGenEq.

(* Headers.iso88591(a) for a str (also with lone surrogates), bytes, None,
   int: what the model says, and never a UnicodeError *)
Theorem C14_generated_iso88591_is_model :
  forall a : arg, gen_iso88591 (emb_arg a) = emb_res_str (iso88591 a).
Proof. exact gen_iso88591_is_model. Qed.
Print Assumptions C14_generated_iso88591_is_model.

(* for every Python value of lib/PyHeaders.v the generated function is the
   primitive that gen/HeadersGen.v calls *)
Theorem C14_generated_iso88591_is_the_primitive :
  forall v : hv, gen_iso88591 v = plift (p_iso88591 v).
Proof. exact gen_iso88591_is_primitive. Qed.
Print Assumptions C14_generated_iso88591_is_the_primitive.

(* Headers.utf8(s) for a str s *)
Theorem C14_generated_utf8_is_model :
  forall s : str, gen_utf8 (VStr s) = POk (VStr (utf8 s)).
Proof. exact gen_utf8_is_model. Qed.
Print Assumptions C14_generated_utf8_is_model.

(* Headers.__iter__, its iterator consumed at once (list(h), for kv in h):
   the model's OItems ("items(), also list(h)") *)
Theorem C14_generated_iter_is_model :
  forall s : state, gen_iter (emb_state s) = emb_iter_step (step s OItems).
Proof. exact gen_iter_is_model. Qed.
Print Assumptions C14_generated_iter_is_model.
