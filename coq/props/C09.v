(* C09  The caching body reader returns the body exactly once, in order, and
   stops.  Statements only; every proof is [exact <lemma of
   proofs/CachedInputProofs.v>].

   Vocabulary (model/CachedInput.v): [init body n shorts] is
   CachedInput(stream, n, block, timeout=None) over a stream that holds [body]
   and whose k-th read returns at most [shorts_k] bytes ([shorts] exhausted:
   everything requested that is available; bound 0: nothing right now);
   [run fuel block cs s0 = (rs, s, ok)]: the calls [cs] made one after the
   other, [rs] their (result, log) pairs, [s] the state reached, [ok = false]
   when a call did not return within [fuel] executions of readline's loop
   body; a log is the list of (bytes requested, bytes received) of the
   underlying file.read calls; [pending s] = buffer ++ the unread bytes
   within the remaining budget.  All theorems are for every body, declared
   length n >= 0, block size >= 1, size arguments, call sequence and stream
   behaviour.  The clock-based TimeoutError path (timeout not None) is
   outside the model. *)
From Coq Require Import String ZArith List Bool.
Require Import PW.lib.Val PW.model.CachedInput PW.proofs.CachedInputProofs.
Import ListNotations.
Open Scope Z_scope.

(* (1) the chunks returned concatenate to a prefix of the first n bytes, and
   what is missing is exactly what is still buffered or unread within the
   budget: nothing lost, duplicated or reordered *)
Theorem C09_prefix :
  forall body n block shorts fuel cs rs fin ok,
    0 <= n -> 1 <= block ->
    run fuel block cs (init body n shorts) = (rs, fin, ok) ->
    take n body = results rs ++ pending fin.
Proof. exact reader_prefix. Qed.
Print Assumptions C09_prefix.

(* (2) budget: every underlying read requests between 0 and (n - bytes
   received so far) bytes, so the stream is never asked to go past its n-th
   byte; todo = n - bytes received; the bytes received are a prefix of the
   stream; and when every read is served in full (blocking stream holding at
   least n bytes) the total requested is at most n *)
Theorem C09_budget :
  forall body n block shorts fuel cs rs fin ok,
    0 <= n -> 1 <= block ->
    run fuel block cs (init body n shorts) = (rs, fin, ok) ->
    within n (logs rs) /\
    todo fin = n - got (logs rs) /\ 0 <= got (logs rs) <= n /\
    (exists d, body = d ++ s_data (src fin) /\ len d = got (logs rs)) /\
    (shorts = [] -> n <= len body -> asked (logs rs) = got (logs rs)).
Proof. exact reader_budget. Qed.
Print Assumptions C09_budget.

(* (3) after any history, a readline result has no CRLF other than at its
   end, is never longer than the caller's limit,
   and a result not ending in CRLF has the length of the caller's limit,
   or the input is exhausted (nothing buffered, declared length used up), or
   the last underlying read returned nothing (end of stream / no data now) *)
Theorem C09_readline_crlf_and_cut :
  forall body n block shorts fuel cs rs s ok k r s' q,
    0 <= n -> 1 <= block ->
    run fuel block cs (init body n shorts) = (rs, s, ok) ->
    readline fuel block k s = Ok r s' q ->
    (forall i, crlf_at r i -> (i + 2)%nat = List.length r) /\
    (0 <= k -> len r <= k) /\
    (ends_crlf r \/ (0 <= k /\ len r = k) \/ exhausted s' \/
     exists q0 j, q = q0 ++ [(j, 0)]).
Proof. exact reader_lines. Qed.
Print Assumptions C09_readline_crlf_and_cut.

(* ... and read(size) with a size >= 0 never returns more than size bytes *)
Theorem C09_read_within_limit :
  forall block size s r s' q,
    0 <= size -> read block size s = Ok r s' q -> len r <= size.
Proof. exact read_within_limit. Qed.
Print Assumptions C09_read_within_limit.

(* (4) liveness as a fuel bound: with more fuel than the declared length and
   than every size argument, every call of every history returns, whatever
   the stream does (short reads, nothing, end of file before n) *)
Theorem C09_every_call_returns :
  forall body n block shorts fuel cs rs fin ok,
    0 <= n -> 1 <= block ->
    (forall c, In c cs -> call_size c < Z.of_nat fuel) -> n < Z.of_nat fuel ->
    run fuel block cs (init body n shorts) = (rs, fin, ok) -> ok = true.
Proof. exact reader_returns. Qed.
Print Assumptions C09_every_call_returns.

(* ... the same for one readline from an arbitrary state: the loop body runs
   at most (effective size + 1) times *)
Theorem C09_readline_returns :
  forall fuel block size s,
    eff_size size s < Z.of_nat fuel ->
    readline fuel block size s <> OutOfFuel.
Proof. exact readline_returns. Qed.
Print Assumptions C09_readline_returns.

(* ... and the number of underlying reads of a call is bounded by the bytes
   it received plus one (only the last read of a call can return nothing),
   which in turn is bounded by the budget left *)
Theorem C09_reads_bounded :
  forall body n block shorts fuel cs rs s ok c r s' q,
    0 <= n -> 1 <= block ->
    run fuel block cs (init body n shorts) = (rs, s, ok) ->
    step fuel block c s = Ok r s' q ->
    Z.of_nat (List.length q) <= got q + 1 /\ got q <= n - got (logs rs).
Proof. exact reader_reads_bounded. Qed.
Print Assumptions C09_reads_bounded.

(* (5) completeness on a blocking stream: when, after any history, a call
   with a non-zero size argument returns b'', everything of the first n bytes
   has been returned *)
Theorem C09_complete_at_end_of_input :
  forall body n block fuel cs rs s c s' q,
    0 <= n -> 1 <= block -> call_size c <> 0 ->
    run fuel block cs (init body n []) = (rs, s, true) ->
    step fuel block c s = Ok [] s' q ->
    results rs = take n body.
Proof. exact reader_complete. Qed.
Print Assumptions C09_complete_at_end_of_input.

(* ---- translator tie: the model used above (timeout=None) equals the
   definitions that harness/py2v.py generates from the current
   poorwsgi/request.py (gen/CachedGen.v, rewritten on every check run), over
   the Python semantics of lib/Py.v, for every buffer, budget >= 0, block
   size >= 0, size argument, stream and amount of fuel *)
Require Import PW.lib.Py PW.gen.CachedGen PW.proofs.CachedGenEq.

Theorem C09_generated_read_is_model :
  forall b t f tmo block size clk,
    0 <= t -> 0 <= block ->
    gen_cached_read (PBytes b) (PInt t) (inj_stream f) tmo (PInt block) (PInt size) clk
    = inj_out (read block size (St b t f)).
Proof. exact gen_cached_read_eq. Qed.
Print Assumptions C09_generated_read_is_model.

Theorem C09_generated_readline_is_model :
  forall b t f block size clk fuel,
    0 <= t -> 0 <= block ->
    gen_cached_readline (PBytes b) (PInt t) (inj_stream f) PNone (PInt block)
                        (PInt size) clk fuel
    = inj_out (readline fuel block size (St b t f)).
Proof. exact gen_cached_readline_eq. Qed.
Print Assumptions C09_generated_readline_is_model.

(* ---- translator tie: how the reader is made and handed out.  The
   definitions of gen/ReqInputGen.v are regenerated on every check run by
   harness/py2v_reqinput.py from the current poorwsgi/request.py
   (CachedInput.__init__; Request.input, data, read, __read, read_chunk) as
   programs over lib/PyReqInput.v (attribute stores of self, method calls on
   the file object as PCall nodes). *)
Require Import PW.model.QueryForm.
Require Import PW.lib.PyReqInput PW.gen.ReqInputGen PW.proofs.ReqInputGenEq.

(* CachedInput(file, n, block, timeout) starts in the model's initial state
   [init body n shorts] (empty buffer, todo = the second argument), with
   block_size = the third and timeout = the fourth argument, touching no
   other attribute; the defaults are 32768 and 10.0 *)
Theorem C09_generated_cached_init_is_model :
  forall o file body n shorts block timeout,
    exists o',
      gen_cached_init o file (RInt n) (RInt block) timeout = PRet RNone o' /\
      reader_state o' (CachedInput.Stream body shorts)
        = Some (CachedInput.init body n shorts, block) /\
      attr o' "_CachedInput__file" = file /\
      attr o' "_CachedInput__timeout" = timeout /\
      (forall name, ~ In name cached_attrs -> o' name = o name) /\
      gen_cached_init_defaults = [(3, RInt 32768); (4, RRat 10 1)].
Proof. exact gen_cached_init_model. Qed.
Print Assumptions C09_generated_cached_init_is_model.

(* Request.input hands out the BytesIO when the body was buffered, else a
   CachedInput(wsgi.input, Content-Length, cached_size, read_timeout) when
   cached_size is non-zero (the [RCached (clen c)] of the read plan), else
   the raw stream; the reader is created once and later calls return it *)
Theorem C09_generated_request_input_is_model :
  forall c raw bio tmo o,
    req_state c raw bio tmo o ->
    let v := input_choice c raw bio tmo in
    let o' := input_store c raw bio tmo o in
    gen_request_input o = PRet v o' /\ gen_request_input o' = PRet v o'.
Proof. exact gen_request_input_eq. Qed.
Print Assumptions C09_generated_request_input_is_model.

(* Request.read(length): b'' without a call when no body is expected; one
   read(Content-Length) for length outside (-1, Content-Length) -- the
   [RRead (clen c)] of the read plan; inside it self.read becomes __read,
   which is file.read(length) *)
Theorem C09_generated_request_read_is_model :
  forall c o length,
    attr o "_Request__content_length" = RInt (clen c) ->
    env_state c o ->
    o "_Request__read" = None ->
    gen_request_read o (RInt length) = model_read c o length /\
    (gen_request_read_defaults = [(1, RInt (-1))] /\
     gen_request_read o (RInt (-1))
     = if body_expected c
       then PCall (attr o "_Request__file") "read" [RInt (clen c)] [] o
                  (fun t => PRet t o)
       else PRet (RBytes []) o) /\
    (forall l, gen_request___read o l
      = PCall (attr o "_Request__file") "read" [l] [] o (fun t => PRet t o)).
Proof.
  intros c o length H1 H2 H3. split; [exact (gen_request_read_eq c o length H1 H2 H3)|].
  split; [exact (gen_request_read_default c o H1 H2 H3)|].
  exact (gen_request___read_eq o).
Qed.
Print Assumptions C09_generated_request_read_is_model.

(* Request.data: over a BytesIO with any content and position, the whole
   content, position back at 0; None without any call otherwise; in every
   case the program is try: seek(0); read() finally: seek(0) *)
Theorem C09_generated_request_data_is_model :
  forall o,
    ((forall i content pos,
        attr o "_Request__file" = RObj "BytesIO" i ->
        PyReqInput.run bio_call (gen_request_data o) (content, pos)
        = (ORet (RBytes content) o, (content, 0))) /\
     (isinstance (attr o "_Request__file") "BytesIO" = false ->
      gen_request_data o = PRet RNone o)) /\
    (isinstance (attr o "_Request__file") "BytesIO" = true ->
     gen_request_data o
     = PTry (PCall (attr o "_Request__file") "seek" [RInt 0] [] o (fun _ =>
             PCall (attr o "_Request__file") "read" [] [] o (fun t =>
             PRet t o)))
            (fun o1 => PCall (attr o1 "_Request__file") "seek" [RInt 0] [] o1
                             (fun _ => PRet RNone o1))).
Proof.
  intros o. split; [exact (gen_request_data_eq o)|exact (gen_request_data_shape o)].
Qed.
Print Assumptions C09_generated_request_data_is_model.

(* Request.read_chunk = the (new, small) definition model_read_chunk:
   int(file.readline(), base=16), then try: file.read(size) finally:
   file.readline() *)
Theorem C09_generated_request_read_chunk_is_model :
  forall o, gen_request_read_chunk o = model_read_chunk o.
Proof. exact gen_request_read_chunk_eq. Qed.
Print Assumptions C09_generated_request_read_chunk_is_model.
