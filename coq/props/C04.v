(* C04  Aborts and exceptions become the documented HTTP answers. *)
From Coq Require Import ZArith List Bool.
Require Import PW.lib.Val PW.model.Dispatch PW.proofs.DispatchProofs PW.proofs.DispatchMore.
Import ListNotations.
Open Scope Z_scope.

Section C04.
  Variable known_status : Z -> bool.
  Variable isinst : exn -> Z -> bool.
  Variable builtin : Z -> bool.
  Variable page : Z -> resp.

  (* status resolution = [status_response]: the handler registered for
     (s, method) with its result interpreted like an endpoint result
     ([handler_result]), else the built-in page for s, else the 501 page *)
  Theorem C04_status_resolution :
    forall a m s,
      fst (state_from_table known_status builtin page a m s)
      = Val (status_response known_status builtin page a m s).
  Proof. exact (state_from_table_spec known_status builtin page). Qed.

  (* abort(s) in the endpoint (s not 0/200, see known finding abort-200-is-204) *)
  Theorem C04_abort_status :
    forall a f s,
      fconstruct f = None -> fleaf f = LEndpoint (Abort s) ->
      first_fail (before a) = None -> s <> 0 -> s <> 200 ->
      fst (ladder known_status isinst builtin page a f)
      = P1Resp (status_response known_status builtin page a (fmethod f) s).
  Proof. exact (abort_status known_status isinst builtin page). Qed.

  Theorem C04_abort_with_response_exact :
    forall a f r,
      fconstruct f = None -> fleaf f = LEndpoint (AbortResp r) ->
      first_fail (before a) = None ->
      fst (ladder known_status isinst builtin page a f) = P1Resp r.
  Proof. exact (abort_with_response_exact known_status isinst builtin page). Qed.

  (* the exception handler used is the first one in registration order whose
     class matches and which is registered for the method *)
  Theorem C04_exception_handler_first_match :
    forall e m l cls h,
      find_ehandler isinst e m l = Some (cls, h) <->
      exists l1 hd l2, l = l1 ++ (cls, hd) :: l2 /\ isinst e cls = true /\
        assoc1 m hd = Some h /\
        Forall (fun ch => isinst e (fst ch) = false \/ assoc1 m (snd ch) = None) l1.
  Proof. exact (find_ehandler_first isinst). Qed.

  Theorem C04_exception_dispatch :
    forall a f cls,
      fconstruct f = None -> fleaf f = LEndpoint (Throw cls) ->
      first_fail (before a) = None ->
      fst (ladder known_status isinst builtin page a f) =
      P1Resp match find_ehandler isinst (EUser cls) (fmethod f) (ehandlers a) with
             | Some (_, h) =>
                 match call h None with
                 | Exc (EHttp c) =>
                     if (c =? 0) || (c =? 200)
                     then handler_result known_status page h
                     else status_response known_status builtin page a (fmethod f) c
                 | _ => handler_result known_status page h
                 end
             | None => status_response known_status builtin page a (fmethod f) 500
             end.
  Proof. exact (exception_dispatch known_status isinst builtin page). Qed.

  (* the conversion does not depend on the after hooks *)
  Theorem C04_independent_of_after :
    forall a l f,
      fst (ladder known_status isinst builtin page
             (mkApp (before a) l (shandlers a) (ehandlers a) (digest_auth a)) f)
      = fst (ladder known_status isinst builtin page a f).
  Proof. exact (independent_of_after known_status isinst builtin page). Qed.

  (* a failure inside a status or exception handler degrades to the 500 page *)
  Theorem C04_handler_failure_is_500 :
    forall h,
      (exists cls, h = Throw cls) \/ h = ThrowConn \/ h = ThrowExit \/
      (exists v e, h = Ret v /\ to_response known_status v = Exc e) ->
      handler_result known_status page h = ise page.
  Proof. exact (handler_failure_is_500 known_status page). Qed.
End C04.

Print Assumptions C04_status_resolution.
Print Assumptions C04_abort_status.
Print Assumptions C04_abort_with_response_exact.
Print Assumptions C04_exception_handler_first_match.
Print Assumptions C04_exception_dispatch.
Print Assumptions C04_independent_of_after.
Print Assumptions C04_handler_failure_is_500.

(* ---- translator tie: [state_from_table] and [error_from_table] used above
   are equal to the definitions generated from the current
   poorwsgi/wsgi.py (Application.state_from_table, error_from_table) by
   harness/py2v_dispatch.py (gen/DispatchGen.v is rewritten on every check
   run), over the primitives of lib/PyDispatch.v; [lift_resp]/[lift_opt]
   only inject the model's result into the value type of the generated code *)
Require Import PW.lib.PyDispatch PW.gen.DispatchGen PW.proofs.DispatchGenEq.

Theorem C04_generated_state_from_table_is_model :
  forall w a m code kw,
    gen_state_from_table w a (DR m) (DV (PInt code)) kw
    = (lift_resp (fst (state_from_table (w_known w) (w_builtin w) (w_page w) a m code)),
       snd (state_from_table (w_known w) (w_builtin w) (w_page w) a m code)).
Proof. exact gen_state_from_table_eq. Qed.
Print Assumptions C04_generated_state_from_table_is_model.

Theorem C04_generated_error_from_table_is_model :
  forall w a m e,
    gen_error_from_table w a (DR m) (DE e)
    = (lift_opt (fst (error_from_table (w_known w) (w_isinst w) (w_builtin w) (w_page w) a m e)),
       snd (error_from_table (w_known w) (w_isinst w) (w_builtin w) (w_page w) a m e)).
Proof. exact gen_error_from_table_eq. Qed.
Print Assumptions C04_generated_error_from_table_is_model.
