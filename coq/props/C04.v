(* C04  Aborts and exceptions become the documented HTTP answers. *)
From Coq Require Import ZArith List Bool.
Require Import PW.lib.Val PW.model.Dispatch PW.proofs.DispatchProofs PW.proofs.DispatchMore.
Import ListNotations.
Open Scope Z_scope.

Section C04.
  Variable known_status : Z -> bool.
  Variable isinst : exn -> Z -> bool.
  Variable builtin : Z -> bool.
  Variable page : Z -> resp.

  (* status resolution = [status_response]: the handler registered for
     (s, method) with its result interpreted like an endpoint result
     ([handler_result]), else the built-in page for s, else the 501 page *)
  Theorem C04_status_resolution :
    forall a m s,
      fst (state_from_table known_status builtin page a m s)
      = Val (status_response known_status builtin page a m s).
  Proof. exact (state_from_table_spec known_status builtin page). Qed.

  (* abort(s) in the endpoint (s not 0/200, see known finding abort-200-is-204) *)
  Theorem C04_abort_status :
    forall a f s,
      fconstruct f = None -> fleaf f = LEndpoint (Abort s) ->
      first_fail (before a) = None -> s <> 0 -> s <> 200 ->
      fst (ladder known_status isinst builtin page a f)
      = P1Resp (status_response known_status builtin page a (fmethod f) s).
  Proof. exact (abort_status known_status isinst builtin page). Qed.

  Theorem C04_abort_with_response_exact :
    forall a f r,
      fconstruct f = None -> fleaf f = LEndpoint (AbortResp r) ->
      first_fail (before a) = None ->
      fst (ladder known_status isinst builtin page a f) = P1Resp r.
  Proof. exact (abort_with_response_exact known_status isinst builtin page). Qed.

  (* the exception handler used is the first one in registration order whose
     class matches and which is registered for the method *)
  Theorem C04_exception_handler_first_match :
    forall e m l cls h,
      find_ehandler isinst e m l = Some (cls, h) <->
      exists l1 hd l2, l = l1 ++ (cls, hd) :: l2 /\ isinst e cls = true /\
        assoc1 m hd = Some h /\
        Forall (fun ch => isinst e (fst ch) = false \/ assoc1 m (snd ch) = None) l1.
  Proof. exact (find_ehandler_first isinst). Qed.

  Theorem C04_exception_dispatch :
    forall a f cls,
      fconstruct f = None -> fleaf f = LEndpoint (Throw cls) ->
      first_fail (before a) = None ->
      fst (ladder known_status isinst builtin page a f) =
      P1Resp match find_ehandler isinst (EUser cls) (fmethod f) (ehandlers a) with
             | Some (_, h) =>
                 match call h None with
                 | Exc (EHttp c) =>
                     if (c =? 0) || (c =? 200)
                     then handler_result known_status page h
                     else status_response known_status builtin page a (fmethod f) c
                 | _ => handler_result known_status page h
                 end
             | None => status_response known_status builtin page a (fmethod f) 500
             end.
  Proof. exact (exception_dispatch known_status isinst builtin page). Qed.

  (* the conversion does not depend on the after hooks *)
  Theorem C04_independent_of_after :
    forall a l f,
      fst (ladder known_status isinst builtin page
             (mkApp (before a) l (shandlers a) (ehandlers a) (digest_auth a)) f)
      = fst (ladder known_status isinst builtin page a f).
  Proof. exact (independent_of_after known_status isinst builtin page). Qed.

  (* a failure inside a status or exception handler degrades to the 500 page *)
  Theorem C04_handler_failure_is_500 :
    forall h,
      (exists cls, h = Throw cls) \/ h = ThrowConn \/ h = ThrowExit \/
      (exists v e, h = Ret v /\ to_response known_status v = Exc e) ->
      handler_result known_status page h = ise page.
  Proof. exact (handler_failure_is_500 known_status page). Qed.
End C04.

Print Assumptions C04_status_resolution.
Print Assumptions C04_abort_status.
Print Assumptions C04_abort_with_response_exact.
Print Assumptions C04_exception_handler_first_match.
Print Assumptions C04_exception_dispatch.
Print Assumptions C04_independent_of_after.
Print Assumptions C04_handler_failure_is_500.

(* ---- translator tie: [state_from_table] and [error_from_table] used above
   are equal to the definitions generated from the current
   poorwsgi/wsgi.py (Application.state_from_table, error_from_table) by
   harness/py2v_dispatch.py (gen/DispatchGen.v is rewritten on every check
   run), over the primitives of lib/PyDispatch.v; [lift_resp]/[lift_opt]
   only inject the model's result into the value type of the generated code *)
Require Import PW.lib.PyDispatch PW.gen.DispatchGen PW.proofs.DispatchGenEq.

Theorem C04_generated_state_from_table_is_model :
  forall w a m code kw,
    gen_state_from_table w a (DR m) (DV (PInt code)) kw
    = (lift_resp (fst (state_from_table (w_known w) (w_builtin w) (w_page w) a m code)),
       snd (state_from_table (w_known w) (w_builtin w) (w_page w) a m code)).
Proof. exact gen_state_from_table_eq. Qed.
Print Assumptions C04_generated_state_from_table_is_model.

Theorem C04_generated_error_from_table_is_model :
  forall w a m e,
    gen_error_from_table w a (DR m) (DE e)
    = (lift_opt (fst (error_from_table (w_known w) (w_isinst w) (w_builtin w) (w_page w) a m e)),
       snd (error_from_table (w_known w) (w_isinst w) (w_builtin w) (w_page w) a m e)).
Proof. exact gen_error_from_table_eq. Qed.
Print Assumptions C04_generated_error_from_table_is_model.

(* ---- translator tie for the abort object: what the ladder above does with
   an abort -- [exc_response] (through [exn_make_response], the primitive the
   generated request cycle calls for `http_err.make_response()`), the status
   an abort carries and the exception [call (Abort c)] / [call (AbortResp r)]
   raises -- is equal to the definitions generated from the current
   poorwsgi/response.py (class HTTPException, function abort) by
   harness/py2v_abort.py (gen/AbortGen.v is rewritten on every check run),
   over lib/PyAbort.v; [self_args w e] is `self.args` of the exception [e] as
   the generated request cycle reads it ([getattr_ w (DE e) A_args]) *)
Require Import PW.lib.PyShapes PW.lib.PyAbort PW.gen.AbortGen PW.proofs.AbortGenEq.

Theorem C04_generated_abort_make_response_is_model :
  forall w a e,
    w_known w 200 = true -> w_known w 204 = true -> is_http e = true ->
    bind (self_args w e) (gen_abort_make_response w a) = exn_make_response (DE e)
    /\ exn_make_response (DE e)
       = ret (match exc_response e with Some r => DV (PResp r) | None => DV PNone end).
Proof. exact abort_make_response_tie. Qed.
Print Assumptions C04_generated_abort_make_response_is_model.

(* the status an abort carries (property `status_code`: the int itself, else
   the status of the response, which is the response the ladder answers
   with) and the property `response` *)
Theorem C04_generated_abort_status_code_is_model :
  forall w a,
    (forall c, bind (self_args w (EHttp c)) (gen_abort_status_code w a) = ret (DV (PInt c)))
    /\ (forall r, exc_response (EHttpResp r) = Some r
                  /\ bind (self_args w (EHttpResp r)) (gen_abort_status_code w a)
                     = ret (DV (PInt (rstatus r))))
    /\ (forall e, is_http e = true ->
                  bind (self_args w e) (gen_abort_response w a)
                  = ret (match e with EHttpResp r => DV (PResp r) | _ => DV PNone end)).
Proof. exact abort_status_code_tie. Qed.
Print Assumptions C04_generated_abort_status_code_is_model.

(* abort(code) / abort(response) raise exactly the exception the model's
   [call (Abort code)] / [call (AbortResp response)] raise; any other
   argument fails the assert of HTTPException.__init__; the instance's
   `args` are (arg, kwargs) as the request cycle reads them; the class
   derives from Exception; response / status_code are properties *)
Theorem C04_generated_abort_raises_http_exception :
  forall w a g,
    (forall c, gen_abort w a (DV (PInt c)) = (lift_py (call (Abort c) g), []))
    /\ (forall r, gen_abort w a (DV (PResp r)) = (lift_py (call (AbortResp r) g), []))
    /\ (forall v, (forall c, v <> PInt c) -> (forall r, v <> PResp r) ->
                  gen_abort w a (DV v) = raise assert_error)
    /\ (forall v, gen_abort_init w a (DV v) DKw
                  = match v with
                    | PInt c => self_args w (EHttp c)
                    | PResp r => self_args w (EHttpResp r)
                    | _ => raise assert_error
                    end)
    /\ (forall e, is_http e = true ->
                  forallb (exn_isa e) (KHTTPException :: gen_abort_bases) = true)
    /\ gen_abort_members
       = abort_members_model.
Proof. exact abort_raises_tie. Qed.
Print Assumptions C04_generated_abort_raises_http_exception.

(* redirect(...) and RedirectResponse.__init__ (no counterpart in the hand
   model: a redirect is one more abort(response)).  [tr x] stands for
   `x is True`, an uninterpreted predicate.  Whenever the generated
   constructor returns, it returns a response of the base class whose
   status is 301 if `status_code is True or permanent`, else the given
   status (302 by default), and whose last Location header is the (UTF-8
   bytes of the) argument *)
Theorem C04_generated_redirect_status_and_location :
  forall w a tr loc st msg hdrs perm x ev,
    gen_redirect_response_init w a tr loc st msg hdrs perm = (Val x, ev) ->
    ev = [] /\
    exists r l l',
      x = DV (PResp r) /\ loc = DV (PStr l) /\ utf8 l = Some l' /\
      rcls r = CBase /\
      (tr st || truthy perm = true -> rstatus r = 301) /\
      (tr st || truthy perm = false -> st = DV (PInt (rstatus r))) /\
      hdr_get location_name (rev (rhdrs r)) = Some l' /\
      gen_redirect_defaults = [DV (PInt 302); DV (PBytes []); DV PNone; of_bool false] /\
      gen_redirect_response_init_defaults = gen_redirect_defaults.
Proof. exact redirect_status_and_location_tie. Qed.
Print Assumptions C04_generated_redirect_status_and_location.

(* redirect raises HTTPException(that response) -- the model's
   [call (AbortResp r)] --, or the constructor's own exception *)
Theorem C04_generated_redirect_raises_response_abort :
  forall w a tr loc st msg hdrs perm g,
    match gen_redirect_response_init w a tr loc st msg hdrs perm with
    | (Val (DV (PResp r)), ev) =>
        gen_redirect w a tr loc st msg hdrs perm = (lift_py (call (AbortResp r) g), ev)
    | (Val _, _) => False
    | (Exc e, ev) => gen_redirect w a tr loc st msg hdrs perm = (Exc e, ev)
    end.
Proof. exact redirect_raises_tie. Qed.
Print Assumptions C04_generated_redirect_raises_response_abort.

(* non-vacuity: redirect(location) with the default arguments *)
Theorem C04_generated_redirect_default :
  forall w a tr l l',
    w_known w 302 = true -> tr (DV (PInt 302)) = false -> utf8 l = Some l' ->
    gen_redirect w a tr (DV (PStr l)) (DV (PInt 302)) (DV (PBytes [])) (DV PNone)
                 (of_bool false)
    = raise (EHttpResp (mkResp CBase 302 [xpb; (location_name, l')] text_plain 0 [[]])).
Proof. exact redirect_default_example. Qed.
Print Assumptions C04_generated_redirect_default.
