(* C18  Header values the library renders parse back to the same value.
   Statements only; every proof is [exact <lemma of proofs/HeaderCodecProofs.v>].
   str = list Z (code points); [Ok v] / [Raised name] = returned / raised. *)
From Coq Require Import ZArith List Bool String.
Require Import PW.lib.Val PW.lib.Dec PW.model.HeaderCodec PW.proofs.HeaderCodecProofs.
Import ListNotations.
Open Scope string_scope.
Open Scope list_scope.
Open Scope Z_scope.

(* ---- byte ranges ---------------------------------------------------- *)
(* every well-formed range set (any number of first-last / first- / -suffix
   items, integers 0 <= n < 10^4300, i.e. up to CPython's int<->str limit;
   any units text without '=') parses to exactly the pairs written *)
Theorem C18_range_roundtrip :
  forall units rs, ~ In 61 units -> Forall wf_range rs ->
    parse_range (render_ranges units rs) = Ok [(units, rs)].
Proof. exact range_roundtrip. Qed.
Print Assumptions C18_range_roundtrip.

(* parse_range returns a value for every string (the ValueError of the
   unpacking and of int() are caught; nothing else can be raised) *)
Theorem C18_parse_range_total :
  forall s, exists d, parse_range s = Ok d.
Proof. exact parse_range_total. Qed.
Print Assumptions C18_parse_range_total.

(* ---- HTTP dates ------------------------------------------------------ *)
(* the civil-calendar core, for every day number *)
Theorem C18_days_civil_days :
  forall z, let '(y, m, d) := civil_from_days z in days_from_civil y m d = z.
Proof. exact days_civil_days. Qed.
Print Assumptions C18_days_civil_days.

(* http_to_time (time_to_http t) = t for every second of 1970..9999 *)
Theorem C18_date_roundtrip :
  forall t, 0 <= t < 253402300800 ->
    bind (time_to_http t) http_to_time = Ok t.
Proof. exact date_roundtrip. Qed.
Print Assumptions C18_date_roundtrip.

(* ---- negotiation lists ----------------------------------------------- *)
(* Q = the q-values, float / str_q = float() and str() on them, one = 1.0.
   Assumed of them: float (str q) = q and str q has no ',' or ';'.
   Names: no ',', no ";q=" inside, no blank at either end.  An absent q
   reads back as 1.0 ([nego_value]). *)
Theorem C18_negotiation_roundtrip :
  forall (Q : Type) (float : list Z -> outcome Q) (str_q : Q -> list Z) (one : Q),
    (forall q, float (str_q q) = Ok q) ->
    (forall q, ~ In 44 (str_q q) /\ ~ In 59 (str_q q)) ->
    forall items, items <> [] ->
      Forall (fun it => nego_name_ok (fst it)) items ->
      parse_negotiation Q float one (render_negotiation Q str_q items)
      = Ok (map (nego_value Q one) items).
Proof. exact negotiation_roundtrip. Qed.
Print Assumptions C18_negotiation_roundtrip.

(* the round trip does not extend to the empty list: it is written as the
   empty string, which reads as one item with an empty name and q = 1.0 *)
Theorem C18_negotiation_roundtrip_empty_refuted :
  forall (Q : Type) (float : list Z -> outcome Q) (str_q : Q -> list Z) (one : Q),
    parse_negotiation Q float one (render_negotiation Q str_q [])
    = Ok [([], one)].
Proof. exact negotiation_empty. Qed.
Print Assumptions C18_negotiation_roundtrip_empty_refuted.

(* parse_negotiation returns a value for every string, provided float()
   raises nothing but ValueError (pair[0] always exists; IndexError and
   ValueError of the quality are caught) *)
Theorem C18_parse_negotiation_total :
  forall (Q : Type) (float : list Z -> outcome Q) (one : Q),
    (forall s, only "ValueError" (float s)) ->
    forall s, exists v, parse_negotiation Q float one s = Ok v.
Proof. exact parse_negotiation_total. Qed.
Print Assumptions C18_parse_negotiation_total.

(* ---- parameterised values -------------------------------------------- *)
(* parse_header (the value add_header(name, v, **ps) stores) = (v, ps), for
   EVERY parameter value the writer renders: any non-empty list of code
   points -- blanks, semicolons, double quotes, backslashes anywhere (also
   at the end, also in front of a further parameter), '=', ',', CR, LF,
   controls, any code point.  (Since the repair of _parseparam, which used
   to count quotes instead of scanning; known finding
   param-backslash-before-next-param until then.)
   What remains are the limits of the writer itself, which quotes and
   escapes parameter VALUES only:
   - main value v ([main_ok]): written as it is, so no ';' and no double
     quote, no blank at either end (parse_header strips it);
   - keys ([key_ok]): written as they are (after '_' -> '-'), so no '=', ';',
     double quote, '_', no blank at either end, and lower case (parse_header
     lower-cases them); distinct (kwargs of a call are);
   - an EMPTY value is written as the bare key (wsgiref _formatparam) and
     therefore reads back as no entry: see C18_param_roundtrip_all.
   Outside the model: Headers.iso88591 (str -> UTF-8 bytes read as Latin-1,
   applied to v, keys and values before this writer; it raises ValueError
   for lone surrogates, which UTF-8 cannot encode) and its inverse
   Headers.utf8 on the reading side -- the lists here are the code points
   after that conversion, and the theorem holds for all of them. *)
Theorem C18_param_roundtrip :
  forall v ps,
    main_ok v -> Forall (fun kv => key_ok (fst kv)) ps -> NoDup (map fst ps) ->
    Forall (fun kv => snd kv <> []) ps ->
    bind (add_header_value (Some v) (map param_value ps)) parse_header
    = Ok (v, ps).
Proof. exact param_roundtrip. Qed.
Print Assumptions C18_param_roundtrip.

(* ... and with no hypothesis on the values at all: the pairs with an empty
   value are the ones that do not come back *)
Theorem C18_param_roundtrip_all :
  forall v ps,
    main_ok v -> Forall (fun kv => key_ok (fst kv)) ps -> NoDup (map fst ps) ->
    bind (add_header_value (Some v) (map param_value ps)) parse_header
    = Ok (v, filter (fun kv => negb (is_nil (snd kv))) ps).
Proof. exact param_roundtrip_gen. Qed.
Print Assumptions C18_param_roundtrip_all.

(* the escaping itself is inverted exactly, for every value *)
Theorem C18_unescape_escape :
  forall x, replace2 92 34 [34] (replace2 92 92 [92] (escape x)) = x.
Proof. exact unescape_escape. Qed.
Print Assumptions C18_unescape_escape.

(* the witness of the former finding: add_header('form-data', a='x\',
   filename='b') reads back as written (before the repair: as the single
   parameter a whose value was x, a double quote, '; filename=', a double
   quote, b) *)
Theorem C18_param_roundtrip_backslash_witness :
  bind (add_header_value (Some (s2l "form-data"))
          (map param_value [(s2l "a", [120; 92]); (s2l "filename", s2l "b")]))
       parse_header
  = Ok (s2l "form-data", [(s2l "a", [120; 92]); (s2l "filename", s2l "b")]).
Proof. exact param_roundtrip_backslash. Qed.
Print Assumptions C18_param_roundtrip_backslash_witness.

(* parse_header returns a value for every string (the generator always
   yields the first part, so next() cannot raise StopIteration) *)
Theorem C18_parse_header_total :
  forall s, exists r, parse_header s = Ok r.
Proof. exact parse_header_total. Qed.
Print Assumptions C18_parse_header_total.

(* ---- translator tie: the definitions generated from the current source of
   headers._parseparam and headers.parse_header (gen/ParamGen.v, by
   harness/py2v_param.py over lib/Py.v + lib/PyParam.v) are the model.
   [PStr s] is a Python str, the generator's items are a [PList], a dict is
   the [PList] of its (key, value) [PTuple]s in insertion order
   ([enc_header_outcome]: the pair (key, dict), or the exception of
   parts.__next__()).  Every Python `while` runs on fuel (one unit per
   execution of a loop body, [OutOfFuel] when it is used up): any fuel above
   the length of the scanned string suffices. *)
Require Import PW.lib.Py PW.lib.PyParam PW.gen.ParamGen PW.proofs.ParamGenEq.

Theorem C18_generated_parseparam_is_model :
  forall (s : list Z) (fuel : nat), (List.length s < fuel)%nat ->
    gen_parseparam (PStr s) fuel = Py.Ok (PList (map PStr (parseparam s))).
Proof. exact gen_parseparam_is_model. Qed.
Print Assumptions C18_generated_parseparam_is_model.

Theorem C18_generated_parse_header_is_model :
  forall (line : list Z) (fuel : nat), (S (List.length line) < fuel)%nat ->
    gen_parse_header (PStr line) fuel
    = enc_header_outcome (HeaderCodec.parse_header line).
Proof. exact gen_parse_header_is_model. Qed.
Print Assumptions C18_generated_parse_header_is_model.
