(* C18  Header values the library renders parse back to the same value.
   Statements only; every proof is [exact <lemma of proofs/HeaderCodecProofs.v>]. *)
From Coq Require Import ZArith List Bool String.
Require Import PW.lib.Val PW.lib.Dec PW.model.HeaderCodec PW.proofs.HeaderCodecProofs.
Import ListNotations.
Open Scope string_scope.
Open Scope list_scope.
Open Scope Z_scope.

(* ---- byte ranges ---------------------------------------------------- *)
(* every well-formed range set (any number of first-last / first- / -suffix
   items, integers 0 <= n < 10^4300, i.e. up to CPython's int<->str limit;
   any units text without '=') parses to exactly the pairs written *)
Theorem C18_range_roundtrip :
  forall units rs, ~ In 61 units -> Forall wf_range rs ->
    parse_range (render_ranges units rs) = Ok [(units, rs)].
Proof. exact range_roundtrip. Qed.
Print Assumptions C18_range_roundtrip.

(* parse_range returns a value for every string (the ValueError of the
   unpacking and of int() are caught; nothing else can be raised) *)
Theorem C18_parse_range_total :
  forall s, exists d, parse_range s = Ok d.
Proof. exact parse_range_total. Qed.
Print Assumptions C18_parse_range_total.

(* ---- HTTP dates ------------------------------------------------------ *)
(* the civil-calendar core, for every day number *)
Theorem C18_days_civil_days :
  forall z, let '(y, m, d) := civil_from_days z in days_from_civil y m d = z.
Proof. exact days_civil_days. Qed.
Print Assumptions C18_days_civil_days.

(* http_to_time (time_to_http t) = t for every second of 1970..9999 *)
Theorem C18_date_roundtrip :
  forall t, 0 <= t < 253402300800 ->
    bind (time_to_http t) http_to_time = Ok t.
Proof. exact date_roundtrip. Qed.
Print Assumptions C18_date_roundtrip.
