(* C18  Header values the library renders parse back to the same value.
   Statements only; every proof is [exact <lemma of proofs/HeaderCodecProofs.v>].
   str = list Z (code points); [Ok v] / [Raised name] = returned / raised. *)
From Coq Require Import ZArith List Bool String.
Require Import PW.lib.Val PW.lib.Dec PW.model.HeaderCodec PW.proofs.HeaderCodecProofs.
Import ListNotations.
Open Scope string_scope.
Open Scope list_scope.
Open Scope Z_scope.

(* ---- byte ranges ---------------------------------------------------- *)
(* every well-formed range set (any number of first-last / first- / -suffix
   items, integers 0 <= n < 10^4300, i.e. up to CPython's int<->str limit;
   any units text without '=') parses to exactly the pairs written *)
Theorem C18_range_roundtrip :
  forall units rs, ~ In 61 units -> Forall wf_range rs ->
    parse_range (render_ranges units rs) = Ok [(units, rs)].
Proof. exact range_roundtrip. Qed.
Print Assumptions C18_range_roundtrip.

(* parse_range returns a value for every string (the ValueError of the
   unpacking and of int() are caught; nothing else can be raised) *)
Theorem C18_parse_range_total :
  forall s, exists d, parse_range s = Ok d.
Proof. exact parse_range_total. Qed.
Print Assumptions C18_parse_range_total.

(* ---- HTTP dates ------------------------------------------------------ *)
(* the civil-calendar core, for every day number *)
Theorem C18_days_civil_days :
  forall z, let '(y, m, d) := civil_from_days z in days_from_civil y m d = z.
Proof. exact days_civil_days. Qed.
Print Assumptions C18_days_civil_days.

(* http_to_time (time_to_http t) = t for every second of 1970..9999 *)
Theorem C18_date_roundtrip :
  forall t, 0 <= t < 253402300800 ->
    bind (time_to_http t) http_to_time = Ok t.
Proof. exact date_roundtrip. Qed.
Print Assumptions C18_date_roundtrip.

(* ---- negotiation lists ----------------------------------------------- *)
(* Q = the q-values, float / str_q = float() and str() on them, one = 1.0.
   Assumed of them: float (str q) = q and str q has no ',' or ';'.
   Names: no ',', no ";q=" inside, no blank at either end.  An absent q
   reads back as 1.0 ([nego_value]). *)
Theorem C18_negotiation_roundtrip :
  forall (Q : Type) (float : list Z -> outcome Q) (str_q : Q -> list Z) (one : Q),
    (forall q, float (str_q q) = Ok q) ->
    (forall q, ~ In 44 (str_q q) /\ ~ In 59 (str_q q)) ->
    forall items, items <> [] ->
      Forall (fun it => nego_name_ok (fst it)) items ->
      parse_negotiation Q float one (render_negotiation Q str_q items)
      = Ok (map (nego_value Q one) items).
Proof. exact negotiation_roundtrip. Qed.
Print Assumptions C18_negotiation_roundtrip.

(* the round trip does not extend to the empty list: it is written as the
   empty string, which reads as one item with an empty name and q = 1.0 *)
Theorem C18_negotiation_roundtrip_empty_refuted :
  forall (Q : Type) (float : list Z -> outcome Q) (str_q : Q -> list Z) (one : Q),
    parse_negotiation Q float one (render_negotiation Q str_q [])
    = Ok [([], one)].
Proof. exact negotiation_empty. Qed.
Print Assumptions C18_negotiation_roundtrip_empty_refuted.

(* parse_negotiation returns a value for every string, provided float()
   raises nothing but ValueError (pair[0] always exists; IndexError and
   ValueError of the quality are caught) *)
Theorem C18_parse_negotiation_total :
  forall (Q : Type) (float : list Z -> outcome Q) (one : Q),
    (forall s, only "ValueError" (float s)) ->
    forall s, exists v, parse_negotiation Q float one s = Ok v.
Proof. exact parse_negotiation_total. Qed.
Print Assumptions C18_parse_negotiation_total.

(* ---- parameterised values -------------------------------------------- *)
(* parse_header (the value add_header(name, v, **ps) stores) = (v, ps), for
   EVERY parameter value the writer renders: any non-empty list of code
   points -- blanks, semicolons, double quotes, backslashes anywhere (also
   at the end, also in front of a further parameter), '=', ',', CR, LF,
   controls, any code point.  (Since the repair of _parseparam, which used
   to count quotes instead of scanning; known finding
   param-backslash-before-next-param until then.)
   What remains are the limits of the writer itself, which quotes and
   escapes parameter VALUES only:
   - main value v ([main_ok]): written as it is, so no ';' and no double
     quote, no blank at either end (parse_header strips it);
   - keys ([key_ok]): written as they are (after '_' -> '-'), so no '=', ';',
     double quote, '_', no blank at either end, and lower case (parse_header
     lower-cases them); distinct (kwargs of a call are);
   - an EMPTY value is written as the bare key (wsgiref _formatparam) and
     therefore reads back as no entry: see C18_param_roundtrip_all.
   Outside the model: Headers.iso88591 (str -> UTF-8 bytes read as Latin-1,
   applied to v, keys and values before this writer; it raises ValueError
   for lone surrogates, which UTF-8 cannot encode) and its inverse
   Headers.utf8 on the reading side -- the lists here are the code points
   after that conversion, and the theorem holds for all of them. *)
Theorem C18_param_roundtrip :
  forall v ps,
    main_ok v -> Forall (fun kv => key_ok (fst kv)) ps -> NoDup (map fst ps) ->
    Forall (fun kv => snd kv <> []) ps ->
    bind (add_header_value (Some v) (map param_value ps)) parse_header
    = Ok (v, ps).
Proof. exact param_roundtrip. Qed.
Print Assumptions C18_param_roundtrip.

(* ... and with no hypothesis on the values at all: the pairs with an empty
   value are the ones that do not come back *)
Theorem C18_param_roundtrip_all :
  forall v ps,
    main_ok v -> Forall (fun kv => key_ok (fst kv)) ps -> NoDup (map fst ps) ->
    bind (add_header_value (Some v) (map param_value ps)) parse_header
    = Ok (v, filter (fun kv => negb (is_nil (snd kv))) ps).
Proof. exact param_roundtrip_gen. Qed.
Print Assumptions C18_param_roundtrip_all.

(* the escaping itself is inverted exactly, for every value *)
Theorem C18_unescape_escape :
  forall x, replace2 92 34 [34] (replace2 92 92 [92] (escape x)) = x.
Proof. exact unescape_escape. Qed.
Print Assumptions C18_unescape_escape.

(* the witness of the former finding: add_header('form-data', a='x\',
   filename='b') reads back as written (before the repair: as the single
   parameter a whose value was x, a double quote, '; filename=', a double
   quote, b) *)
Theorem C18_param_roundtrip_backslash_witness :
  bind (add_header_value (Some (s2l "form-data"))
          (map param_value [(s2l "a", [120; 92]); (s2l "filename", s2l "b")]))
       parse_header
  = Ok (s2l "form-data", [(s2l "a", [120; 92]); (s2l "filename", s2l "b")]).
Proof. exact param_roundtrip_backslash. Qed.
Print Assumptions C18_param_roundtrip_backslash_witness.

(* parse_header returns a value for every string (the generator always
   yields the first part, so next() cannot raise StopIteration) *)
Theorem C18_parse_header_total :
  forall s, exists r, parse_header s = Ok r.
Proof. exact parse_header_total. Qed.
Print Assumptions C18_parse_header_total.

(* ---- translator tie: the definitions generated from the current source of
   headers._parseparam and headers.parse_header (gen/ParamGen.v, by
   harness/py2v_param.py over lib/Py.v + lib/PyParam.v) are the model.
   [PStr s] is a Python str, the generator's items are a [PList], a dict is
   the [PList] of its (key, value) [PTuple]s in insertion order
   ([enc_header_outcome]: the pair (key, dict), or the exception of
   parts.__next__()).  Every Python `while` runs on fuel (one unit per
   execution of a loop body, [OutOfFuel] when it is used up): any fuel above
   the length of the scanned string suffices. *)
Require Import PW.lib.Py PW.lib.PyParam PW.gen.ParamGen PW.proofs.ParamGenEq.

Theorem C18_generated_parseparam_is_model :
  forall (s : list Z) (fuel : nat), (List.length s < fuel)%nat ->
    gen_parseparam (PStr s) fuel = Py.Ok (PList (map PStr (parseparam s))).
Proof. exact gen_parseparam_is_model. Qed.
Print Assumptions C18_generated_parseparam_is_model.

Theorem C18_generated_parse_header_is_model :
  forall (line : list Z) (fuel : nat), (S (List.length line) < fuel)%nat ->
    gen_parse_header (PStr line) fuel
    = enc_header_outcome (HeaderCodec.parse_header line).
Proof. exact gen_parse_header_is_model. Qed.
Print Assumptions C18_generated_parse_header_is_model.

(* ---- translator tie: the definitions generated from the current source of
   the other header codecs of poorwsgi/headers.py (gen/CodecGen.v, by
   harness/py2v_codec.py over lib/Py.v + lib/PyParam.v + lib/PyCodec.v) are
   the model.  The scanner of RE_BYTES_RANGE stays the model's [findall]; the
   generated code hands it the pattern text read from the source, and
   lib/PyCodec.v answers for the text [re_bytes_range] only.  A dict is the
   [PList] of its (key, value) [PTuple]s, None is [PNone]
   ([enc_range_dict]). *)
Require Import PW.lib.PyCodec PW.gen.CodecGen PW.proofs.CodecGenEq.

Theorem C18_generated_parse_range_is_model :
  forall value : list Z,
    gen_parse_range (PStr value)
    = enc_outcome enc_range_dict (HeaderCodec.parse_range value).
Proof. exact gen_parse_range_is_model. Qed.
Print Assumptions C18_generated_parse_range_is_model.

(* str(ContentRange(start, end, full, units)) for int start / end, full an
   int or the text "*" ([enc_full]), with every number of arguments the
   signature allows: the defaults are 0, 0, "*", "bytes" *)
Theorem C18_generated_content_range_is_model :
  (forall units a b full,
     gen_content_range_4 (PInt a) (PInt b) (enc_full full) (PStr units)
     = Py.Ok (PStr (content_range units a b full))) /\
  (forall a b full,
     gen_content_range_3 (PInt a) (PInt b) (enc_full full)
     = Py.Ok (PStr (content_range (s2l "bytes") a b full))) /\
  (forall a b,
     gen_content_range_2 (PInt a) (PInt b)
     = Py.Ok (PStr (content_range (s2l "bytes") a b None))) /\
  (forall a,
     gen_content_range_1 (PInt a)
     = Py.Ok (PStr (content_range (s2l "bytes") a 0 None))) /\
  gen_content_range_0 = Py.Ok (PStr (content_range (s2l "bytes") 0 0 None)).
Proof. exact gen_content_range_is_model. Qed.
Print Assumptions C18_generated_content_range_is_model.

(* parse_negotiation / render_negotiation.  As in the model, float(), str()
   of a q-value and the literal 1.0 are parameters: the generated
   definitions take them as [pfloat], [pstr_v], [flit] (the latter applied
   to the literal's text), and [encq] says how a q-value of the model is a
   Python value.  Assumed: float(text) is the model's [float] (exceptions by
   class name), the literal written 1.0 is [one], str(x) is x for a str and
   the model's [str_q] for a q-value.  The result list holds the
   (name, q) tuples ([enc_nego_list]); an item to render is (name,) or
   (name, q) ([enc_nego_in]), in a list or a tuple. *)
Theorem C18_generated_parse_negotiation_is_model :
  forall (Q : Type) (float : list Z -> outcome Q) (one : Q) (encq : Q -> pv)
         (pfloat : pv -> res pv) (flit : list Z -> pv),
    (forall s, pfloat (PStr s) = enc_outcome encq (float s)) ->
    flit (s2l "1.0") = encq one ->
    forall value : list Z,
      gen_parse_negotiation pfloat flit (PStr value)
      = enc_outcome (enc_nego_list Q encq)
                    (HeaderCodec.parse_negotiation Q float one value).
Proof. exact gen_parse_negotiation_is_model. Qed.
Print Assumptions C18_generated_parse_negotiation_is_model.

Theorem C18_generated_render_negotiation_is_model :
  forall (Q : Type) (str_q : Q -> list Z) (encq : Q -> pv)
         (pstr_v : pv -> res pv),
    (forall s, pstr_v (PStr s) = Py.Ok (PStr s)) ->
    (forall q, pstr_v (encq q) = Py.Ok (PStr (str_q q))) ->
    forall l : list (list Z * option Q),
      gen_render_negotiation pstr_v (PList (map (enc_nego_in Q encq) l))
      = Py.Ok (PStr (HeaderCodec.render_negotiation Q str_q l)) /\
      gen_render_negotiation pstr_v (PTuple (map (enc_nego_in Q encq) l))
      = Py.Ok (PStr (HeaderCodec.render_negotiation Q str_q l)).
Proof. exact gen_render_negotiation_is_model. Qed.
Print Assumptions C18_generated_render_negotiation_is_model.

(* the date codecs: int(value), timezone.utc, the replace(tzinfo=...) /
   timestamp() / int() chain and the text of HEADER_DATETIME_FORMAT come from
   the source; strftime / strptime stay the model's [time_to_http] /
   [http_to_time], which lib/PyCodec.v uses for the format text
   [http_date_format] = "%a, %d %b %Y %X GMT" only.  [dt_aware t] is the
   aware UTC datetime of POSIX second t; the clock of datetime.now is the
   first argument of the generated time_to_http; a float argument is the
   exact rational [PRat n d], which int() truncates toward zero. *)
Theorem C18_generated_date_format_is_model :
  (forall now t, gen_time_to_http now (PInt t)
                 = enc_outcome PStr (time_to_http t)) /\
  (forall now n d, gen_time_to_http now (PRat n d)
                   = enc_outcome PStr (time_to_http (Z.quot n d))) /\
  (forall t, gen_time_to_http (dt_aware t) PNone
             = enc_outcome PStr (time_to_http t)) /\
  gen_time_to_http_defaults = [PNone] /\
  (forall t, gen_datetime_to_http (dt_aware t)
             = enc_outcome PStr (time_to_http t)) /\
  (forall s, gen_http_to_time (PStr s) = enc_outcome PInt (http_to_time s)) /\
  (forall s, gen_http_to_datetime (PStr s)
             = enc_outcome dt_aware (http_to_time s)).
Proof. exact gen_date_format_is_model. Qed.
Print Assumptions C18_generated_date_format_is_model.
