(* C17  A response depends only on its own request and the configuration.
   The theorems are about the modelled footprint (model/Isolation.v,
   model/Dispatch.v); the check's state census and differential runs tie that
   footprint to the implementation. *)
From Coq Require Import ZArith List Bool Arith.
Require Import PW.lib.Val PW.model.Dispatch PW.model.Isolation PW.proofs.IsolationProofs.
Import ListNotations.
Open Scope Z_scope.

(* diagnostic page: building the merged status table writes no dictionary
   object that existed before (the inner tables of default_states and of
   every application stay as they were), for every heap and tables *)
Theorem C17_debug_info_frame :
  forall h defaults user,
    NoDup (map fst user) ->
    forall id, id < fresh h ->
      hget (fst (debug_info_merge h defaults user)) id = hget h id.
Proof. exact debug_info_frame. Qed.
Print Assumptions C17_debug_info_frame.

(* the model does distinguish: the variant that shares the inner
   dictionaries (the code before its fix) violates the frame property *)
Theorem C17_aliasing_variant_refuted :
  exists h defaults user id,
    NoDup (map fst user) /\ id < fresh h /\
    hget (fst (debug_info_merge_aliasing h defaults user)) id <> hget h id.
Proof. exact aliasing_variant_writes_shared. Qed.
Print Assumptions C17_aliasing_variant_refuted.

(* every history of requests, against one application or several sharing the
   process: each request gets the answer it gets alone *)
Theorem C17_history_independent :
  forall known_status reason isinst reqs w,
    serve_seq known_status reason isinst w reqs =
    map (fun r => fst (serve known_status reason isinst w r)) reqs.
Proof. exact history_independent. Qed.
Print Assumptions C17_history_independent.

(* every interleaving of the atomic steps of in-flight requests, when each
   step reads the shared state and rewrites only its request's own state:
   the shared state is untouched and request i ends where its own steps,
   run alone, take it *)
Theorem C17_schedule_independent :
  forall (G L : Type) (rstep : G -> L -> L) sched g ls i,
    fst (run_schedule G L rstep sched (g, ls)) = g /\
    nth_error (snd (run_schedule G L rstep sched (g, ls))) i =
    option_map (iter L (count_occ Nat.eq_dec sched i) (rstep g)) (nth_error ls i).
Proof. exact schedule_independent. Qed.
Print Assumptions C17_schedule_independent.

(* ---- generated census of process-wide mutable objects (translator
   harness/py2v_shared.py -> gen/SharedGen.v, regenerated from poorwsgi/*.py
   on every run): every function that stores into a module-level or
   class-level mutable object (directly, through a `global`, a local alias,
   or self.X for a class-level X) is one of the import-time / construction-
   time writers listed in model/SharedState.v, and no such object (nor a
   shallow copy of one with mutable values) is stored into an attribute or
   item.  A syntactic under-approximation; the dynamic census of the check
   covers the executed paths. *)
Require Import PW.model.SharedState PW.gen.SharedGen.

Theorem C17_generated_no_request_time_shared_writes :
  (forall f o h, In (f, o, h) shared_writes -> In (f, o) allowed_writes) /\
  shared_escapes = [].
Proof. apply census_ok_spec. vm_compute. reflexivity. Qed.
Print Assumptions C17_generated_no_request_time_shared_writes.

(* The application object itself is only read while a request is answered:
   the methods reachable from __call__ / __request__ through self (listed
   from the current source) contain no store and no mutating call whose
   target is part of self, directly, through a local alias, a loop variable
   or a dictionary view.  Registration order of routes, hook lists and the
   configuration are therefore the same for every request of a history. *)
From Coq Require Import String.
Local Open Scope string_scope.
Local Open Scope list_scope.
Theorem C17_generated_request_time_code_leaves_the_application_alone :
  instance_writes = [] /\
  existsb (String.eqb "wsgi.Application.__request__")
          request_time_methods = true /\
  existsb (String.eqb "wsgi.Application.handler_from_table")
          request_time_methods = true /\
  existsb (String.eqb "wsgi.Application.error_from_table")
          request_time_methods = true.
Proof. vm_compute. repeat split; reflexivity. Qed.
Print Assumptions C17_generated_request_time_code_leaves_the_application_alone.

(* ---- generated configuration accessors (translator harness/py2v_config.py
   -> gen/ConfigGen.v, regenerated from poorwsgi/wsgi.py on every run): the
   property getters and setters of the configuration keys of Application
   and the configuration literal of __init__ are the configuration map of
   model/Config.v (proofs/ConfigGenEq.v); and the census of every store
   into the configuration dictionary (or escape of it) in wsgi.py finds only
   __init__ and the setters. *)
Require Import PW.lib.PyConfig PW.model.Config PW.proofs.ConfigProofs
  PW.gen.ConfigGen PW.proofs.ConfigGenEq.

Theorem C17_generated_config_accessors_are_model :
  forall (ios : int_parser) (k : ckey) (o : cobj) (v : cval),
    wf o ->
    gen_get k ios o = Some (cfg_get k (abs o)) /\
    (gen_set k = None <-> kind k = None) /\
    (kind k = None <->
     In (key_name k) (gen_no_setter ++ gen_untied_setters)) /\
    forall f, gen_set k = Some f ->
      match f ios o v, cfg_try_set ios k v (abs o) with
      | Some o', Some c' =>
          (forall k', abs o' k' = c' k') /\ wf o' /\
          (forall a key, a <> ATTR \/ key <> key_name k ->
                         o' a key = o a key)
      | None, None => True
      | _, _ => False
      end.
Proof.
  intros ios k o v H. split; [now apply config_get_eq|].
  split; [apply setters_agree|]. split; [apply setters_agree|].
  intros f Hf. now apply config_set_eq.
Qed.
Print Assumptions C17_generated_config_accessors_are_model.

Theorem C17_generated_initial_config_is_model :
  (forall k, dict_lookup gen_init_config (key_name k) = Some (cfg_init k)) /\
  (forall s, In s (map fst gen_init_config) -> exists k, s = key_name k) /\
  gen_config_attr = ATTR /\
  forall o, (forall key, o ATTR key = dict_lookup gen_init_config key) ->
            wf o /\ forall k, abs o k = cfg_init k.
Proof.
  destruct config_init_eq as [A [B C]]. repeat split; auto;
    now apply config_init_abs.
Qed.
Print Assumptions C17_generated_initial_config_is_model.

Theorem C17_generated_config_writers_are_the_setters :
  (forall w, In w config_writers -> In w allowed_config_writers) /\
  forallb (fun w => is_setter_or_init (fst w)) config_writers = true /\
  forallb (fun w => is_setter_or_init (fst w)) allowed_config_writers = true /\
  In ("wsgi.Application.__init__", "arg0.__config = <dict>") config_writers /\
  In ("wsgi.Application.debug.setter", "arg0.__config['debug']")
     config_writers.
Proof.
  split; [apply config_writers_ok_spec; vm_compute; reflexivity|].
  vm_compute. intuition.
Qed.
Print Assumptions C17_generated_config_writers_are_the_setters.
