(* C17  A response depends only on its own request and the configuration.
   The theorems are about the modelled footprint (model/Isolation.v,
   model/Dispatch.v); the check's state census and differential runs tie that
   footprint to the implementation. *)
From Coq Require Import ZArith List Bool Arith.
Require Import PW.lib.Val PW.model.Dispatch PW.model.Isolation PW.proofs.IsolationProofs.
Import ListNotations.
Open Scope Z_scope.

(* diagnostic page: building the merged status table writes no dictionary
   object that existed before (the inner tables of default_states and of
   every application stay as they were), for every heap and tables *)
Theorem C17_debug_info_frame :
  forall h defaults user,
    NoDup (map fst user) ->
    forall id, id < fresh h ->
      hget (fst (debug_info_merge h defaults user)) id = hget h id.
Proof. exact debug_info_frame. Qed.
Print Assumptions C17_debug_info_frame.

(* the model does distinguish: the variant that shares the inner
   dictionaries (the code before its fix) violates the frame property *)
Theorem C17_aliasing_variant_refuted :
  exists h defaults user id,
    NoDup (map fst user) /\ id < fresh h /\
    hget (fst (debug_info_merge_aliasing h defaults user)) id <> hget h id.
Proof. exact aliasing_variant_writes_shared. Qed.
Print Assumptions C17_aliasing_variant_refuted.

(* every history of requests, against one application or several sharing the
   process: each request gets the answer it gets alone *)
Theorem C17_history_independent :
  forall known_status reason isinst reqs w,
    serve_seq known_status reason isinst w reqs =
    map (fun r => fst (serve known_status reason isinst w r)) reqs.
Proof. exact history_independent. Qed.
Print Assumptions C17_history_independent.

(* every interleaving of the atomic steps of in-flight requests, when each
   step reads the shared state and rewrites only its request's own state:
   the shared state is untouched and request i ends where its own steps,
   run alone, take it *)
Theorem C17_schedule_independent :
  forall (G L : Type) (rstep : G -> L -> L) sched g ls i,
    fst (run_schedule G L rstep sched (g, ls)) = g /\
    nth_error (snd (run_schedule G L rstep sched (g, ls))) i =
    option_map (iter L (count_occ Nat.eq_dec sched i) (rstep g)) (nth_error ls i).
Proof. exact schedule_independent. Qed.
Print Assumptions C17_schedule_independent.

(* ---- generated census of process-wide mutable objects (translator
   harness/py2v_shared.py -> gen/SharedGen.v, regenerated from poorwsgi/*.py
   on every run): every function that stores into a module-level or
   class-level mutable object (directly, through a `global`, a local alias,
   or self.X for a class-level X) is one of the import-time / construction-
   time writers listed in model/SharedState.v, and no such object (nor a
   shallow copy of one with mutable values) is stored into an attribute or
   item.  A syntactic under-approximation; the dynamic census of the check
   covers the executed paths. *)
Require Import PW.model.SharedState PW.gen.SharedGen.

Theorem C17_generated_no_request_time_shared_writes :
  (forall f o h, In (f, o, h) shared_writes -> In (f, o) allowed_writes) /\
  shared_escapes = [].
Proof. apply census_ok_spec. vm_compute. reflexivity. Qed.
Print Assumptions C17_generated_no_request_time_shared_writes.

(* The application object itself is only read while a request is answered:
   the methods reachable from __call__ / __request__ through self (listed
   from the current source) contain no store and no mutating call whose
   target is part of self, directly, through a local alias, a loop variable
   or a dictionary view.  Registration order of routes, hook lists and the
   configuration are therefore the same for every request of a history. *)
From Coq Require Import String.
Local Open Scope string_scope.
Local Open Scope list_scope.
Theorem C17_generated_request_time_code_leaves_the_application_alone :
  instance_writes = [] /\
  existsb (String.eqb "wsgi.Application.__request__")
          request_time_methods = true /\
  existsb (String.eqb "wsgi.Application.handler_from_table")
          request_time_methods = true /\
  existsb (String.eqb "wsgi.Application.error_from_table")
          request_time_methods = true.
Proof. vm_compute. repeat split; reflexivity. Qed.
Print Assumptions C17_generated_request_time_code_leaves_the_application_alone.
