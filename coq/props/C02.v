(* C02  Requests reach exactly the endpoint the routing rules select.
   Statements only; every proof is [exact <lemma of proofs/RegexProofs.v or
   proofs/RoutingProofs.v>].

   U : uclass is the classification of the code points >= 128 by \d \w \s
   (Python takes it from the Unicode database); every theorem holds for
   every U.  [Matches U r s rest]: r matches the text s when [rest] follows
   (whole string: rest = []); [MatchesPrefix]: what pattern.match decides.
   [select] is the model of handler_from_table / handler_from_default,
   [exec] of the registration calls, [compile_text] of the pattern text
   set_route hands to re.compile, [parse_regex] of re.compile on the
   supported subset, [re_match] of pattern.match (first parse in CPython's
   backtracking order, with its captures). *)
From Coq Require Import ZArith List Bool String.
Require Import PW.lib.Val PW.model.Regex PW.model.Routing
        PW.proofs.RegexProofs PW.proofs.RoutingProofs.
Import ListNotations.
Open Scope string_scope.
Open Scope list_scope.
Open Scope Z_scope.

(* ------------------------------------------------------------ the matcher *)
(* the derivative acceptor decides the relational semantics, whole string *)
Theorem C02_accepts_correct :
  forall U s r, accepts U r s = true <-> Matches U r s [].
Proof. exact accepts_correct. Qed.
Print Assumptions C02_accepts_correct.

(* ... and some prefix (start-anchored match) *)
Theorem C02_accepts_prefix_correct :
  forall U s r,
    accepts_prefix U r s = true <->
    exists s1 s2, s = s1 ++ s2 /\ Matches U r s1 s2.
Proof. exact accepts_prefix_correct. Qed.
Print Assumptions C02_accepts_prefix_correct.

(* the backtracking matcher (the one that yields the handler arguments)
   reports a match exactly when a prefix is in the language ... *)
Theorem C02_match_iff_language :
  forall U r s,
    re_match U r s <> None <-> exists s1 s2, s = s1 ++ s2 /\ Matches U r s1 s2.
Proof. exact re_match_some_iff. Qed.
Print Assumptions C02_match_iff_language.

(* ... and what it reports is a parse of that prefix with exactly the
   captures this parse writes *)
Theorem C02_match_reports_a_parse :
  forall U r s c rest,
    re_match U r s = Some (c, rest) ->
    exists s1, s = s1 ++ rest /\ MatchesC U r s1 rest [] c.
Proof. exact re_match_sound. Qed.
Print Assumptions C02_match_reports_a_parse.

(* ------------------------------------------------------------- precedence *)
(* the dispatcher is the documented precedence: exact static path (handler
   or 405), else the first pattern in registration order whose language
   contains a prefix of the path and that is registered for the method,
   else file / directory / 403 under the document root (HEAD, GET), the
   debug page, the per-method default handler, 404 *)
Theorem C02_select_precedence :
  forall U a debug root fs method raw,
    select U a debug root fs method raw =
    select_spec U a debug root fs method raw.
Proof. exact select_precedence. Qed.
Print Assumptions C02_select_precedence.

Theorem C02_static_beats_pattern :
  forall U a debug root fs method raw mt,
    lget (req_path raw) (a_static a) = Some mt ->
    select U a debug root fs method raw =
    match zget (method_number method) mt with
    | Some h => SHandler h [] [] (req_path raw)
    | None => S405
    end.
Proof. exact static_beats_pattern. Qed.
Print Assumptions C02_static_beats_pattern.

Theorem C02_first_pattern_wins :
  forall U a debug root fs method raw l1 p l2 e,
    let m := method_number method in
    let path := req_path raw in
    lget path (a_static a) = None ->
    a_pats a = l1 ++ p :: l2 ->
    (forall q, In q l1 ->
               ~ (MatchesPrefix U (p_re q) path /\ zmem m (p_tab q) = true)) ->
    MatchesPrefix U (p_re p) path ->
    zget m (p_tab p) = Some e ->
    exists c rest,
      re_match U (p_re p) path = Some (c, rest) /\
      select U a debug root fs method raw = run_entry U p e c.
Proof. exact first_pattern_wins. Qed.
Print Assumptions C02_first_pattern_wins.

(* a matching pattern that is not registered for the method is passed over *)
Theorem C02_method_mismatch_falls_through :
  forall U m path p rest,
    zget m (p_tab p) = None ->
    select_pat U m path (p :: rest) = select_pat U m path rest.
Proof. exact method_mismatch_falls_through. Qed.
Print Assumptions C02_method_mismatch_falls_through.

Theorem C02_no_route_fallback :
  forall U a debug root fs method raw,
    let m := method_number method in
    let path := req_path raw in
    lget path (a_static a) = None ->
    (forall q, In q (a_pats a) ->
               ~ (MatchesPrefix U (p_re q) path /\ zmem m (p_tab q) = true)) ->
    select U a debug root fs method raw = fallback a debug root fs m path.
Proof. exact no_route_fallback. Qed.
Print Assumptions C02_no_route_fallback.

Theorem C02_unknown_method_is_get :
  forall U a debug root fs tok raw,
    lget tok method_table = None ->
    select U a debug root fs tok raw = select U a debug root fs (s2l "GET") raw.
Proof. exact unknown_method_is_get. Qed.
Print Assumptions C02_unknown_method_is_get.

(* registering a pattern again keeps its place; a new one goes last *)
Theorem C02_reregistration_keeps_position :
  forall a text f mask cvs rule a',
    set_regular a text f mask cvs rule = Ok a' ->
    map p_text (a_pats a') =
    if pat_mem text (a_pats a) then map p_text (a_pats a)
    else map p_text (a_pats a) ++ [text].
Proof. exact reregistration_keeps_position. Qed.
Print Assumptions C02_reregistration_keeps_position.

(* ... and changes the handler exactly at (that pattern, the bits of mask) *)
Theorem C02_registration_exact :
  forall a text f mask cvs rule a',
    set_regular a text f mask cvs rule = Ok a' ->
    forall key b,
      handler_at a' key b =
      if lz_eqb text key && existsb (Z.eqb b) meths && has_bit mask b
      then Some f else handler_at a key b.
Proof. exact set_regular_exact. Qed.
Print Assumptions C02_registration_exact.

(* ------------------------------------------------------ <name:filter> routes *)
(* the pattern text of a group route, parsed as re.compile does, IS the
   structured expression (literals, one named group per <name:filter>
   holding the filter's expression, \Z) whenever the structured compiler
   accepts the route (literals without metacharacters, ASCII identifiers as
   names, filter expressions in the supported subset without end anchors) *)
Theorem C02_compile_bridge :
  forall U F uri r n,
    compile_route U F uri = Some (r, n) ->
    exists t, compile_text U F uri = Ok t /\ parse_regex t = Some (r, n).
Proof. exact compile_bridge. Qed.
Print Assumptions C02_compile_bridge.

(* the heart: such a route matches exactly the paths that consist of its
   literal text and of segments accepted, as whole strings, by its filters;
   nothing may precede, follow or be missing.
   _partial: the full statement quantifies over every route text and every
   filter expression Python's re accepts.  Proved for the routes the
   structured compiler accepts: literal text without regex metacharacters
   (the property's alphabet), group names that are ASCII identifiers, filter
   expressions (built-in, set_filter, inline :re:) inside the modelled
   subset of re's syntax and free of end anchors.  Missing: expressions
   outside that subset (look-around, back-references, lazy/possessive
   quantifiers, ^ \b \A, quantified sub-expressions that can match the
   empty string); the model fails closed on them and the harness counts
   them.  The same restriction is the only reason for the _partial suffix
   of the three theorems that follow from this one. *)
Theorem C02_route_language_partial :
  forall U F uri r n p,
    compile_route U F uri = Some (r, n) ->
    (accepts U r p = true <-> InRoute U F uri p).
Proof. exact route_language. Qed.
Print Assumptions C02_route_language_partial.

(* the dispatcher uses pattern.match, anchored at the start only: same
   language, because the text ends in \Z (no slack for a trailing newline:
   p ++ "\n" is matched iff p ++ "\n" itself is such a reading) *)
Theorem C02_route_language_match_partial :
  forall U F uri r n p,
    compile_route U F uri = Some (r, n) ->
    (re_match U r p <> None <-> InRoute U F uri p).
Proof. exact route_language_match. Qed.
Print Assumptions C02_route_language_match_partial.

(* /i/<n:int>: "/i/12" yes; "/i/12\n", "/i/12/", "/I/12" no *)
Theorem C02_int_route_newline :
  forall U, exists r n,
    compile_route U init_filters (s2l "/i/<n:int>") = Some (r, n) /\
    re_match U r (s2l "/i/12") <> None /\
    re_match U r (s2l "/i/12" ++ [10]) = None /\
    re_match U r (s2l "/i/12/") = None /\
    re_match U r (s2l "/I/12") = None.
Proof. exact int_route_newline. Qed.
Print Assumptions C02_int_route_newline.

(* an inline expression reaches re.compile as written, case preserved
   (l1: literal text without "<"; no filter is called ":re:" ++ E) *)
Theorem C02_inline_re_verbatim :
  forall U F l1 nm E l2 t,
    forallb (fun c => negb (c =? 60)) l1 = true ->
    nm <> [] -> forallb (is_word U) nm = true ->
    E <> [] -> forallb not_gt E = true ->
    lget (str_lower (s2l ":re:" ++ E)) F = None ->
    compile_text U F (l1 ++ [60] ++ nm ++ s2l ":re:" ++ E ++ [62] ++ l2) = Ok t ->
    exists t2, t = l1 ++ s2l "(?P<" ++ nm ++ [62] ++ E ++ [41] ++ t2.
Proof. exact inline_re_verbatim. Qed.
Print Assumptions C02_inline_re_verbatim.

(* with the built-in table the side condition holds for every E *)
Theorem C02_builtin_no_re_key :
  forall E, E <> [] -> lget (str_lower (s2l ":re:" ++ E)) init_filters = None.
Proof. exact builtin_no_re_key. Qed.
Print Assumptions C02_builtin_no_re_key.

(* the handler's arguments: the path is read as literal text and segments
   vs accepted by the filters, and the converters are applied to these
   segments, in declaration order, under the declared names
   ([convert_all]: what run_entry computes from match.group(name);
   [convert_segs cvs vs]: converter i applied to segment i) *)
Theorem C02_captures_by_name_partial :
  forall U F uri r n cvs p c rest,
    compile_route U F uri = Some (r, n) ->
    converters F (scan_uri U uri) = Ok cvs ->
    re_match U r p = Some (c, rest) ->
    exists vs,
      rest = [] /\ Segments U F (scan_uri U uri) p vs /\
      map fst cvs = grp_names (scan_uri U uri) /\
      convert_all U r c cvs = convert_segs U cvs vs.
Proof. exact captures_by_name. Qed.
Print Assumptions C02_captures_by_name_partial.

(* ------------------------------------------------------------- end to end *)
(* A <name:filter> route registered as a new pattern: a request for one of
   its methods that no static route and no earlier pattern claims runs its
   handler exactly when the path is in the route's language -- with
   converter i applied to segment i, positionally and by name, uri_rule =
   the route text (a raising converter fails the request) -- and is passed
   on to the fallback chain otherwise. *)
Theorem C02_group_route_dispatch_partial :
  forall U a uri f mask a' r n cvs t,
    compile_route U (a_filters a) uri = Some (r, n) ->
    compile_text U (a_filters a) uri = Ok t ->
    converters (a_filters a) (scan_uri U uri) = Ok cvs ->
    pat_mem t (a_pats a) = false ->
    set_route U a uri f mask = Ok a' ->
    forall debug root fs method raw,
      let m := method_number method in
      let path := req_path raw in
      lget path (a_static a) = None ->
      (forall q, In q (a_pats a) ->
                 ~ (MatchesPrefix U (p_re q) path /\ zmem m (p_tab q) = true)) ->
      existsb (Z.eqb m) meths = true -> has_bit mask m = true ->
      (InRoute U (a_filters a) uri path ->
       exists vs,
         Segments U (a_filters a) (scan_uri U uri) path vs /\
         select U a' debug root fs method raw =
         match convert_segs U cvs vs with
         | Ok pargs => SHandler f (map snd pargs) pargs uri
         | Raised "raise" => SConvError
         | Raised _ => SUnknown
         end) /\
      (~ InRoute U (a_filters a) uri path ->
       select U a' debug root fs method raw = fallback a' debug root fs m path).
Proof. exact group_route_dispatch. Qed.
Print Assumptions C02_group_route_dispatch_partial.

(* ------------------------------------------------ tie to the source text *)
(* gen/SelectGen.v is regenerated by harness/py2v_select.py from
   Application.handler_from_table / handler_from_default of poorwsgi/wsgi.py
   on every run: the order of the precedence tests, the conjuncts of each
   test, the nesting, the leaf of every branch, first match wins in the
   pattern loop and the constants are taken from the syntax.  The generated
   dispatcher IS the model [select], for all tables, flags, methods, paths
   and for every outcome of the file-system tests (exists, isfile, isdir,
   access, document_index as five independent booleans; [fskind_of] reads
   them in the order of the model's [fskind]) *)
Require Import PW.gen.SelectGen PW.proofs.SelectGenEq.

Theorem C02_generated_select_tests_is_model :
  forall U a debug root idx ex isf isd acc method raw,
    gen_handler_from_table U a debug root idx ex isf isd acc
                           (method_number method) (req_path raw) =
    select U a debug root (fskind_of idx ex isf isd acc) method raw.
Proof. exact gen_select_tests_is_model. Qed.
Print Assumptions C02_generated_select_tests_is_model.

(* the same with the model's own argument ([gen_select]: the generated
   dispatcher on the tests' outcomes that [fs] stands for) *)
Theorem C02_generated_select_is_model :
  forall U a debug root fs method raw,
    gen_select U a debug root fs method raw =
    select U a debug root fs method raw.
Proof. exact gen_select_is_model. Qed.
Print Assumptions C02_generated_select_is_model.

Theorem C02_generated_default_is_model :
  forall a m, gen_handler_from_default a m = from_default a m.
Proof. exact gen_default_is_model. Qed.
Print Assumptions C02_generated_default_is_model.

(* ---- generated census of the request inputs the dispatch code consults
   (translator harness/py2v_inputs.py -> gen/InputsGen.v, regenerated from
   wsgi.py and request.py on every run).  The footprint is the code that
   runs between the arrival of a request and the choice of its endpoint
   (request-time methods of Application, the request constructors, and every
   request property they use, transitively); every string-keyed lookup
   inside it is one of the inputs of the model (model/Inputs.v): method,
   path, the settings with their overrides, the body headers.  No other
   request header or environment variable can influence which endpoint
   runs. *)
From Coq Require Import String.
Local Open Scope string_scope.
Local Open Scope list_scope.
Require Import PW.model.Inputs PW.gen.InputsGen.

Theorem C02_generated_dispatch_consults_only_modelled_inputs :
  (forall r, In r keyed_reads ->
             in_footprint dispatch_footprint r = true ->
             In r allowed_dispatch_reads) /\
  In "wsgi.Application.handler_from_table" dispatch_footprint /\
  In "request.SimpleRequest.method_number" dispatch_footprint /\
  In "request.SimpleRequest.path" dispatch_footprint /\
  In ("request.SimpleRequest.method", "self.__environ", "get",
      "REQUEST_METHOD") keyed_reads.
Proof.
  split; [apply reads_ok_spec; vm_compute; reflexivity|].
  repeat split; vm_compute; tauto.
Qed.
Print Assumptions C02_generated_dispatch_consults_only_modelled_inputs.

(* ---- generated from poorwsgi/wsgi.py by harness/py2v_route.py (gen/
   RouteGen.v, regenerated on every run): the route-pattern compiler.  The
   pattern text of re_filter, the built-in filter table (names, regex texts,
   converters, in dict order), every operation of Application.__regex /
   __converter / set_filter with its operands, order, constants, caught and
   raised exception classes and the pieces of the format text, and the
   compile step of set_route / pop_route / is_route (the test, the callback
   of sub, the appended "\Z", the element expressions of the converters
   tuple, what is handed on) are taken from the syntax.  Primitives
   (lib/PyRoute.v): the Python string operations and the regular-expression
   engine over re_filter, modelled as "scan the uri into literal characters
   and groups" = [scan_uri]. *)
Require Import PW.lib.PyRoute PW.gen.RouteGen PW.proofs.RouteGenEq.

(* the source's re_filter is the pattern [scan_uri] implements, and the
   table Application.__init__ creates is the model's [init_filters] *)
Theorem C02_generated_builtin_filters_are_model :
  gen_re_filter_pattern = re_filter_pattern /\
  gen_init_filters = init_filters /\
  a_filters init_app = gen_init_filters.
Proof.
  exact (conj gen_re_filter_pattern_is_model
              (conj gen_init_filters_is_model
                    (eq_sym gen_init_filters_is_model))).
Qed.
Print Assumptions C02_generated_builtin_filters_are_model.

(* __regex on the groups (name, filter spec) of a hit, for every filter
   table: the text [compile_parts] puts in for the group -- "(?P<" name ">"
   regex ")" with the regex of the table, the text after ":re:" as written,
   or RuntimeError for an unknown filter *)
Theorem C02_generated_group_regex_is_model :
  forall F nm filt,
    gen_regex F (RS nm) (opt_rv filt) =
    match regex_of F filt with
    | Ok rx => Ok (RS (s2l "(?P<" ++ nm ++ [62] ++ rx ++ [41]))
    | Raised e => Raised e
    end /\
    forall ps,
      compile_parts F (PGrp nm filt :: ps) =
      match gen_regex F (RS nm) (opt_rv filt) with
      | Ok piece =>
          match compile_parts F ps with
          | Ok t => Ok ((match piece with RS s => s | RN => [] end) ++ t)
          | Raised e => Raised e
          end
      | Raised e => Raised e
      end.
Proof. exact gen_regex_in_compile_parts. Qed.
Print Assumptions C02_generated_group_regex_is_model.

(* the compile step of set_route / pop_route / is_route, for every uri and
   filter table: the test is "some part of the scanned uri is a group"; the
   text (sub with __regex, then "\Z") is the model's [compile_text]; in
   set_route the converters tuple (name, __converter(spec)) by position is
   the model's [converters], computed after the text; the text, fun, method,
   the converters and the uri are what is handed to set_regular_route *)
Theorem C02_generated_route_text_is_model :
  forall U F uri,
    (gen_set_route_test U uri = has_group (scan_uri U uri) /\
     gen_pop_route_test U uri = has_group (scan_uri U uri) /\
     gen_is_route_test U uri = has_group (scan_uri U uri)) /\
    gen_set_route_compile U F uri =
      match compile_text U F uri with
      | Ok text =>
          match converters F (scan_uri U uri) with
          | Ok cvs => Ok (RS text, map (fun p => (RS (fst p), snd p)) cvs)
          | Raised e => Raised e
          end
      | Raised e => Raised e
      end /\
    gen_pop_route_compile U F uri =
      match compile_text U F uri with
      | Ok t => Ok (RS t) | Raised e => Raised e end /\
    gen_is_route_compile U F uri =
      match compile_text U F uri with
      | Ok t => Ok (RS t) | Raised e => Raised e end /\
    gen_set_route_args =
      [A_rv 1; A_param 2; A_param 3; A_convs 2; A_param 1] /\
    gen_pop_route_args = [A_rv 1; A_param 2] /\
    gen_is_route_args = [A_rv 1].
Proof.
  intros U F uri.
  exact (conj (gen_route_test_is_model U uri)
          (conj (gen_set_route_compile_is_model U F uri)
            (conj (proj1 (gen_route_text_is_model U F uri))
              (conj (proj2 (gen_route_text_is_model U F uri))
                    gen_route_args_are_model)))).
Qed.
Print Assumptions C02_generated_route_text_is_model.

(* __converter on a filter spec is the model's [conv_of] (the spec lowered,
   every ":re:..." spec read as ":re:", RuntimeError for an unknown one) *)
Theorem C02_generated_converter_is_model :
  forall F filt, gen_converter F (opt_rv filt) = conv_of F filt.
Proof. exact gen_converter_is_model. Qed.
Print Assumptions C02_generated_converter_is_model.

(* set_filter(name, regex, converter) on str arguments is the model's
   [set_filter] (IndexError for the empty name, ":" put in front unless
   already there, the record stored under that name); default converter str *)
Theorem C02_generated_set_filter_is_model :
  (forall F name rx cv,
     gen_set_filter F (RS name) (RS rx) cv = set_filter F name rx cv) /\
  gen_set_filter_default_3 = CStr.
Proof. exact (conj gen_set_filter_is_model gen_set_filter_default_is_model). Qed.
Print Assumptions C02_generated_set_filter_is_model.

(* the model's [set_route] is: the generated test, then the generated
   compile step, then set_regular_route on what the step hands on (text,
   fun, method, converters, rule = the uri); a failing step leaves the
   tables alone; without a group the static table is written *)
Theorem C02_generated_set_route_compile_is_model :
  forall U a uri f mask,
    set_route U a uri f mask =
    if gen_set_route_test U uri then
      match gen_set_route_compile U (a_filters a) uri with
      | Ok (text, cvs) =>
          set_regular a (rv_text text) f mask (map unnamed cvs) (Some uri)
      | Raised e => Raised e
      end
    else
      let mt := match lget uri (a_static a) with Some m => m | None => [] end in
      Ok (mkApp (lset uri (fan mask f meths mt) (a_static a)) (a_pats a)
                (a_defaults a) (a_filters a)).
Proof. exact set_route_via_generated. Qed.
Print Assumptions C02_generated_set_route_compile_is_model.

(* ---- the two request facts the selection rests on, generated from the
   current request.py (SimpleRequest.method, method_number, path) and
   state.py (the `methods` table) by harness/py2v_reqfacts.py
   (gen/ReqFactsGen.v, over lib/Py.v + lib/PyDigest.v + lib/PyReqFacts.v):
   [select] is applied to [method_number method] and [req_path raw_path];
   these are what the properties compute from REQUEST_METHOD and PATH_INFO
   of the environ (items [ei], any dictionary).  A method token that is not
   a key of the table (or an absent REQUEST_METHOD) is GET (2); the path is
   the latin-1 -> UTF-8 re-decoding of PATH_INFO, PATH_INFO itself when
   that raises UnicodeError (the strict UTF-8 decoder is the model's
   [utf8_decode]). *)
Require Import PW.lib.Py PW.lib.PyDigest PW.lib.PyReqFacts PW.gen.ReqFactsGen
        PW.proofs.ReqFactsGenEq.

Theorem C02_generated_method_number_is_model :
  forall ei,
    (forall tok, items_get (PStr k_request_method) ei = Some (PStr tok) ->
       gen_method_number (PDict ei)
       = Py.Ok (PInt (PW.model.Routing.method_number tok))) /\
    (items_get (PStr k_request_method) ei = None ->
       gen_method_number (PDict ei) = Py.Ok (PInt 2)).
Proof.
  intros ei. split; [exact (gen_method_number_eq ei)|exact (gen_method_number_absent ei)].
Qed.
Print Assumptions C02_generated_method_number_is_model.

Theorem C02_generated_path_is_model :
  forall ei raw,
    items_get (PStr k_path_info) ei = Some (PStr raw) ->
    gen_path PW.model.Routing.utf8_decode (PDict ei)
    = Py.Ok (PStr (PW.model.Routing.req_path raw)).
Proof. exact gen_path_routing. Qed.
Print Assumptions C02_generated_path_is_model.
