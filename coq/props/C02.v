(* C02  Requests reach exactly the endpoint the routing rules select.
   Statements only; every proof is [exact <lemma of proofs/RegexProofs.v or
   proofs/RoutingProofs.v>].

   U : uclass is the classification of the code points >= 128 by \d \w \s
   (Python takes it from the Unicode database); every theorem holds for
   every U.  [Matches U r s rest]: r matches the text s when [rest] follows
   (whole string: rest = []); [MatchesPrefix]: what pattern.match decides.
   [select] is the model of handler_from_table / handler_from_default,
   [exec] of the registration calls, [compile_text] of the pattern text
   set_route hands to re.compile, [parse_regex] of re.compile on the
   supported subset, [re_match] of pattern.match (first parse in CPython's
   backtracking order, with its captures). *)
From Coq Require Import ZArith List Bool String.
Require Import PW.lib.Val PW.model.Regex PW.model.Routing
        PW.proofs.RegexProofs PW.proofs.RoutingProofs.
Import ListNotations.
Open Scope string_scope.
Open Scope list_scope.
Open Scope Z_scope.

(* ------------------------------------------------------------ the matcher *)
(* the derivative acceptor decides the relational semantics, whole string *)
Theorem C02_accepts_correct :
  forall U s r, accepts U r s = true <-> Matches U r s [].
Proof. exact accepts_correct. Qed.
Print Assumptions C02_accepts_correct.

(* ... and some prefix (start-anchored match) *)
Theorem C02_accepts_prefix_correct :
  forall U s r,
    accepts_prefix U r s = true <->
    exists s1 s2, s = s1 ++ s2 /\ Matches U r s1 s2.
Proof. exact accepts_prefix_correct. Qed.
Print Assumptions C02_accepts_prefix_correct.

(* the backtracking matcher (the one that yields the handler arguments)
   reports a match exactly when a prefix is in the language ... *)
Theorem C02_match_iff_language :
  forall U r s,
    re_match U r s <> None <-> exists s1 s2, s = s1 ++ s2 /\ Matches U r s1 s2.
Proof. exact re_match_some_iff. Qed.
Print Assumptions C02_match_iff_language.

(* ... and what it reports is a parse of that prefix with exactly the
   captures this parse writes *)
Theorem C02_match_reports_a_parse :
  forall U r s c rest,
    re_match U r s = Some (c, rest) ->
    exists s1, s = s1 ++ rest /\ MatchesC U r s1 rest [] c.
Proof. exact re_match_sound. Qed.
Print Assumptions C02_match_reports_a_parse.

(* ------------------------------------------------------------- precedence *)
(* the dispatcher is the documented precedence: exact static path (handler
   or 405), else the first pattern in registration order whose language
   contains a prefix of the path and that is registered for the method,
   else file / directory / 403 under the document root (HEAD, GET), the
   debug page, the per-method default handler, 404 *)
Theorem C02_select_precedence :
  forall U a debug root fs method raw,
    select U a debug root fs method raw =
    select_spec U a debug root fs method raw.
Proof. exact select_precedence. Qed.
Print Assumptions C02_select_precedence.

Theorem C02_static_beats_pattern :
  forall U a debug root fs method raw mt,
    lget (req_path raw) (a_static a) = Some mt ->
    select U a debug root fs method raw =
    match zget (method_number method) mt with
    | Some h => SHandler h [] [] (req_path raw)
    | None => S405
    end.
Proof. exact static_beats_pattern. Qed.
Print Assumptions C02_static_beats_pattern.

Theorem C02_first_pattern_wins :
  forall U a debug root fs method raw l1 p l2 e,
    let m := method_number method in
    let path := req_path raw in
    lget path (a_static a) = None ->
    a_pats a = l1 ++ p :: l2 ->
    (forall q, In q l1 ->
               ~ (MatchesPrefix U (p_re q) path /\ zmem m (p_tab q) = true)) ->
    MatchesPrefix U (p_re p) path ->
    zget m (p_tab p) = Some e ->
    exists c rest,
      re_match U (p_re p) path = Some (c, rest) /\
      select U a debug root fs method raw = run_entry U p e c.
Proof. exact first_pattern_wins. Qed.
Print Assumptions C02_first_pattern_wins.

(* a matching pattern that is not registered for the method is passed over *)
Theorem C02_method_mismatch_falls_through :
  forall U m path p rest,
    zget m (p_tab p) = None ->
    select_pat U m path (p :: rest) = select_pat U m path rest.
Proof. exact method_mismatch_falls_through. Qed.
Print Assumptions C02_method_mismatch_falls_through.

Theorem C02_no_route_fallback :
  forall U a debug root fs method raw,
    let m := method_number method in
    let path := req_path raw in
    lget path (a_static a) = None ->
    (forall q, In q (a_pats a) ->
               ~ (MatchesPrefix U (p_re q) path /\ zmem m (p_tab q) = true)) ->
    select U a debug root fs method raw = fallback a debug root fs m path.
Proof. exact no_route_fallback. Qed.
Print Assumptions C02_no_route_fallback.

Theorem C02_unknown_method_is_get :
  forall U a debug root fs tok raw,
    lget tok method_table = None ->
    select U a debug root fs tok raw = select U a debug root fs (s2l "GET") raw.
Proof. exact unknown_method_is_get. Qed.
Print Assumptions C02_unknown_method_is_get.

(* registering a pattern again keeps its place; a new one goes last *)
Theorem C02_reregistration_keeps_position :
  forall a text f mask cvs rule a',
    set_regular a text f mask cvs rule = Ok a' ->
    map p_text (a_pats a') =
    if pat_mem text (a_pats a) then map p_text (a_pats a)
    else map p_text (a_pats a) ++ [text].
Proof. exact reregistration_keeps_position. Qed.
Print Assumptions C02_reregistration_keeps_position.

(* ... and changes the handler exactly at (that pattern, the bits of mask) *)
Theorem C02_registration_exact :
  forall a text f mask cvs rule a',
    set_regular a text f mask cvs rule = Ok a' ->
    forall key b,
      handler_at a' key b =
      if lz_eqb text key && existsb (Z.eqb b) meths && has_bit mask b
      then Some f else handler_at a key b.
Proof. exact set_regular_exact. Qed.
Print Assumptions C02_registration_exact.

(* ------------------------------------------------------ <name:filter> routes *)
(* the pattern text of a group route, parsed as re.compile does, IS the
   structured expression (literals, one named group per <name:filter>
   holding the filter's expression, \Z) whenever the structured compiler
   accepts the route (literals without metacharacters, ASCII identifiers as
   names, filter expressions in the supported subset without end anchors) *)
Theorem C02_compile_bridge :
  forall U F uri r n,
    compile_route U F uri = Some (r, n) ->
    exists t, compile_text U F uri = Ok t /\ parse_regex t = Some (r, n).
Proof. exact compile_bridge. Qed.
Print Assumptions C02_compile_bridge.

(* the heart: such a route matches exactly the paths that consist of its
   literal text and of segments accepted, as whole strings, by its filters;
   nothing may precede, follow or be missing.
   _partial: the full statement quantifies over every route text and every
   filter expression Python's re accepts.  Proved for the routes the
   structured compiler accepts: literal text without regex metacharacters
   (the property's alphabet), group names that are ASCII identifiers, filter
   expressions (built-in, set_filter, inline :re:) inside the modelled
   subset of re's syntax and free of end anchors.  Missing: expressions
   outside that subset (look-around, back-references, lazy/possessive
   quantifiers, ^ \b \A, quantified sub-expressions that can match the
   empty string); the model fails closed on them and the harness counts
   them.  The same restriction is the only reason for the _partial suffix
   of the three theorems that follow from this one. *)
Theorem C02_route_language_partial :
  forall U F uri r n p,
    compile_route U F uri = Some (r, n) ->
    (accepts U r p = true <-> InRoute U F uri p).
Proof. exact route_language. Qed.
Print Assumptions C02_route_language_partial.

(* the dispatcher uses pattern.match, anchored at the start only: same
   language, because the text ends in \Z (no slack for a trailing newline:
   p ++ "\n" is matched iff p ++ "\n" itself is such a reading) *)
Theorem C02_route_language_match_partial :
  forall U F uri r n p,
    compile_route U F uri = Some (r, n) ->
    (re_match U r p <> None <-> InRoute U F uri p).
Proof. exact route_language_match. Qed.
Print Assumptions C02_route_language_match_partial.

(* /i/<n:int>: "/i/12" yes; "/i/12\n", "/i/12/", "/I/12" no *)
Theorem C02_int_route_newline :
  forall U, exists r n,
    compile_route U init_filters (s2l "/i/<n:int>") = Some (r, n) /\
    re_match U r (s2l "/i/12") <> None /\
    re_match U r (s2l "/i/12" ++ [10]) = None /\
    re_match U r (s2l "/i/12/") = None /\
    re_match U r (s2l "/I/12") = None.
Proof. exact int_route_newline. Qed.
Print Assumptions C02_int_route_newline.

(* an inline expression reaches re.compile as written, case preserved
   (l1: literal text without "<"; no filter is called ":re:" ++ E) *)
Theorem C02_inline_re_verbatim :
  forall U F l1 nm E l2 t,
    forallb (fun c => negb (c =? 60)) l1 = true ->
    nm <> [] -> forallb (is_word U) nm = true ->
    E <> [] -> forallb not_gt E = true ->
    lget (str_lower (s2l ":re:" ++ E)) F = None ->
    compile_text U F (l1 ++ [60] ++ nm ++ s2l ":re:" ++ E ++ [62] ++ l2) = Ok t ->
    exists t2, t = l1 ++ s2l "(?P<" ++ nm ++ [62] ++ E ++ [41] ++ t2.
Proof. exact inline_re_verbatim. Qed.
Print Assumptions C02_inline_re_verbatim.

(* with the built-in table the side condition holds for every E *)
Theorem C02_builtin_no_re_key :
  forall E, E <> [] -> lget (str_lower (s2l ":re:" ++ E)) init_filters = None.
Proof. exact builtin_no_re_key. Qed.
Print Assumptions C02_builtin_no_re_key.

(* the handler's arguments: the path is read as literal text and segments
   vs accepted by the filters, and the converters are applied to these
   segments, in declaration order, under the declared names
   ([convert_all]: what run_entry computes from match.group(name);
   [convert_segs cvs vs]: converter i applied to segment i) *)
Theorem C02_captures_by_name_partial :
  forall U F uri r n cvs p c rest,
    compile_route U F uri = Some (r, n) ->
    converters F (scan_uri U uri) = Ok cvs ->
    re_match U r p = Some (c, rest) ->
    exists vs,
      rest = [] /\ Segments U F (scan_uri U uri) p vs /\
      map fst cvs = grp_names (scan_uri U uri) /\
      convert_all U r c cvs = convert_segs U cvs vs.
Proof. exact captures_by_name. Qed.
Print Assumptions C02_captures_by_name_partial.

(* ------------------------------------------------------------- end to end *)
(* A <name:filter> route registered as a new pattern: a request for one of
   its methods that no static route and no earlier pattern claims runs its
   handler exactly when the path is in the route's language -- with
   converter i applied to segment i, positionally and by name, uri_rule =
   the route text (a raising converter fails the request) -- and is passed
   on to the fallback chain otherwise. *)
Theorem C02_group_route_dispatch_partial :
  forall U a uri f mask a' r n cvs t,
    compile_route U (a_filters a) uri = Some (r, n) ->
    compile_text U (a_filters a) uri = Ok t ->
    converters (a_filters a) (scan_uri U uri) = Ok cvs ->
    pat_mem t (a_pats a) = false ->
    set_route U a uri f mask = Ok a' ->
    forall debug root fs method raw,
      let m := method_number method in
      let path := req_path raw in
      lget path (a_static a) = None ->
      (forall q, In q (a_pats a) ->
                 ~ (MatchesPrefix U (p_re q) path /\ zmem m (p_tab q) = true)) ->
      existsb (Z.eqb m) meths = true -> has_bit mask m = true ->
      (InRoute U (a_filters a) uri path ->
       exists vs,
         Segments U (a_filters a) (scan_uri U uri) path vs /\
         select U a' debug root fs method raw =
         match convert_segs U cvs vs with
         | Ok pargs => SHandler f (map snd pargs) pargs uri
         | Raised "raise" => SConvError
         | Raised _ => SUnknown
         end) /\
      (~ InRoute U (a_filters a) uri path ->
       select U a' debug root fs method raw = fallback a' debug root fs m path).
Proof. exact group_route_dispatch. Qed.
Print Assumptions C02_group_route_dispatch_partial.

(* ------------------------------------------------ tie to the source text *)
(* gen/SelectGen.v is regenerated by harness/py2v_select.py from
   Application.handler_from_table / handler_from_default of poorwsgi/wsgi.py
   on every run: the order of the precedence tests, the conjuncts of each
   test, the nesting, the leaf of every branch, first match wins in the
   pattern loop and the constants are taken from the syntax.  The generated
   dispatcher IS the model [select], for all tables, flags, methods, paths
   and for every outcome of the file-system tests (exists, isfile, isdir,
   access, document_index as five independent booleans; [fskind_of] reads
   them in the order of the model's [fskind]) *)
Require Import PW.gen.SelectGen PW.proofs.SelectGenEq.

Theorem C02_generated_select_tests_is_model :
  forall U a debug root idx ex isf isd acc method raw,
    gen_handler_from_table U a debug root idx ex isf isd acc
                           (method_number method) (req_path raw) =
    select U a debug root (fskind_of idx ex isf isd acc) method raw.
Proof. exact gen_select_tests_is_model. Qed.
Print Assumptions C02_generated_select_tests_is_model.

(* the same with the model's own argument ([gen_select]: the generated
   dispatcher on the tests' outcomes that [fs] stands for) *)
Theorem C02_generated_select_is_model :
  forall U a debug root fs method raw,
    gen_select U a debug root fs method raw =
    select U a debug root fs method raw.
Proof. exact gen_select_is_model. Qed.
Print Assumptions C02_generated_select_is_model.

Theorem C02_generated_default_is_model :
  forall a m, gen_handler_from_default a m = from_default a m.
Proof. exact gen_default_is_model. Qed.
Print Assumptions C02_generated_default_is_model.

(* ---- generated census of the request inputs the dispatch code consults
   (translator harness/py2v_inputs.py -> gen/InputsGen.v, regenerated from
   wsgi.py and request.py on every run).  The footprint is the code that
   runs between the arrival of a request and the choice of its endpoint
   (request-time methods of Application, the request constructors, and every
   request property they use, transitively); every string-keyed lookup
   inside it is one of the inputs of the model (model/Inputs.v): method,
   path, the settings with their overrides, the body headers.  No other
   request header or environment variable can influence which endpoint
   runs. *)
From Coq Require Import String.
Local Open Scope string_scope.
Local Open Scope list_scope.
Require Import PW.model.Inputs PW.gen.InputsGen.

Theorem C02_generated_dispatch_consults_only_modelled_inputs :
  (forall r, In r keyed_reads ->
             in_footprint dispatch_footprint r = true ->
             In r allowed_dispatch_reads) /\
  In "wsgi.Application.handler_from_table" dispatch_footprint /\
  In "request.SimpleRequest.method_number" dispatch_footprint /\
  In "request.SimpleRequest.path" dispatch_footprint /\
  In ("request.SimpleRequest.method", "self.__environ", "get",
      "REQUEST_METHOD") keyed_reads.
Proof.
  split; [apply reads_ok_spec; vm_compute; reflexivity|].
  repeat split; vm_compute; tauto.
Qed.
Print Assumptions C02_generated_dispatch_consults_only_modelled_inputs.
