(* C02 (work in progress) *)
From Coq Require Import ZArith List Bool.
Require Import PW.lib.Val PW.model.Regex PW.proofs.RegexProofs.
Import ListNotations.
Open Scope Z_scope.

Theorem C02_accepts_correct :
  forall U s r, accepts U r s = true <-> Matches U r s [].
Proof. exact accepts_correct. Qed.
Print Assumptions C02_accepts_correct.
