(* C20  Diagnostic detail is disclosed only when debug is on. *)
From Coq Require Import ZArith List Bool String.
Require Import PW.lib.Val PW.model.Debug PW.proofs.DebugProofs.
Import ListNotations.
Open Scope string_scope.
Open Scope list_scope.
Open Scope Z_scope.

(* the effective flag: the environment override (request environ, or the
   process environment for servers that export it) decides when present and
   non-empty, else the application attribute *)
Theorem C20_effective_debug_spec :
  forall e a, effective_debug e a =
    match selected e with
    | Some (c :: s) => lz_eqb (lower (c :: s)) (s2l "on")
    | _ => a
    end.
Proof. exact effective_debug_spec. Qed.
Print Assumptions C20_effective_debug_spec.

Theorem C20_override_takes_precedence :
  forall e c s, selected e = Some (c :: s) ->
    effective_debug e true = effective_debug e false.
Proof. exact override_takes_precedence. Qed.
Print Assumptions C20_override_takes_precedence.

Theorem C20_on_in_any_letter_case :
  forall e a s, selected e = Some s -> lower s = s2l "on" -> effective_debug e a = true.
Proof. exact on_in_any_letter_case. Qed.
Print Assumptions C20_on_in_any_letter_case.

Theorem C20_other_text_is_off :
  forall e a s, selected e = Some s -> s <> [] -> lower s <> s2l "on" ->
    effective_debug e a = false.
Proof. exact other_text_is_off. Qed.
Print Assumptions C20_other_text_is_off.

Theorem C20_unset_or_empty_uses_attribute :
  forall e a, selected e = None \/ selected e = Some [] -> effective_debug e a = a.
Proof. exact unset_or_empty_uses_attribute. Qed.
Print Assumptions C20_unset_or_empty_uses_attribute.

(* debug off: /debug-info is any unknown path; the debug page is reachable
   only with debug on *)
Theorem C20_off_debug_info_is_unknown :
  forall ds gh node idx,
    routing_tail false ds gh true node idx = routing_tail false ds gh false node idx.
Proof. exact off_debug_info_is_unknown. Qed.
Print Assumptions C20_off_debug_info_is_unknown.

Theorem C20_debug_page_only_when_on :
  forall d ds gh p node idx,
    routing_tail d ds gh p node idx = TDebugPage -> d = true /\ p = true.
Proof. exact debug_page_only_when_on. Qed.
Print Assumptions C20_debug_page_only_when_on.

(* debug off: the 500 page reveals nothing about the exception -- it is the
   same for every failure description, for any literal text of the page *)
Theorem C20_off_hides_detail :
  forall L sw1 sw2 admin d1 d2,
    page500 L false sw1 admin d1 = page500 L false sw2 admin d2.
Proof. exact off_hides_detail. Qed.
Print Assumptions C20_off_hides_detail.

(* ------------------------------------------------ tie to the source text *)
(* The gate itself, on the dispatcher regenerated from
   Application.handler_from_table of poorwsgi/wsgi.py on every run
   (gen/SelectGen.v, proofs/SelectGenEq.v: generated = Routing.select).
   Debug off: every request -- the one for /debug-info included -- is
   dispatched as by handler_from_table with both
   `if req.debug and req.path == '/debug-info'` blocks taken out
   ([select_without_debug]); and the debug page is selected only with debug
   on and only for the path /debug-info. *)
Require Import PW.model.Routing PW.gen.SelectGen PW.proofs.SelectGenEq.

Theorem C20_generated_debug_gate :
  forall U a root fs method raw,
    gen_select U a false root fs method raw =
    select_without_debug U a root fs method raw.
Proof. exact gen_debug_gate. Qed.
Print Assumptions C20_generated_debug_gate.

Theorem C20_generated_debug_page_only_when_on :
  forall U a debug root fs method raw,
    gen_select U a debug root fs method raw = SDebug ->
    debug = true /\ Routing.req_path raw = Routing.debug_path.
Proof. exact gen_debug_only_when_on. Qed.
Print Assumptions C20_generated_debug_page_only_when_on.

(* ---- generated census of the places that consult an override key
   (harness/py2v_inputs.py -> gen/InputsGen.v, from the current wsgi.py and
   request.py): a poor_* / poor.* / uwsgi.* key is looked up only where the
   model of the override says — in SimpleRequest, from the environment
   chosen per request — and nowhere else (not when the application object is
   built, not in the dispatch code). *)
From Coq Require Import String.
Local Open Scope string_scope.
Local Open Scope list_scope.
Require Import PW.model.Inputs PW.gen.InputsGen.

Theorem C20_generated_override_keys_are_read_where_modelled :
  (forall r, In r keyed_reads -> is_override_key (kr_key r) = true ->
             In r allowed_override_reads) /\
  In ("request.SimpleRequest.__init__", "self.__poor_environ", "get",
      "poor_Debug") keyed_reads.
Proof.
  split; [apply reads_ok_spec; vm_compute; reflexivity|].
  vm_compute; tauto.
Qed.
Print Assumptions C20_generated_override_keys_are_read_where_modelled.

(* ---- the effective debug flag computed by SimpleRequest.__init__
   (generated from the whole body of __init__ in the current request.py by
   harness/py2v_reqfacts.py -> gen/ReqFactsGen.v, over lib/Py.v +
   lib/PyDigest.v + lib/PyReqFacts.v; the result is the value stored in
   self.__debug) is the model's [effective_debug]: os.environ is consulted
   exactly when 'uwsgi.version' is in the request environ or 'poor.Version'
   in os.environ, the variable is poor_Debug, an absent or empty value
   leaves app.debug, anything else is compared with 'on' after lower().
   [ei] / [oi] are the items of the request environ / of os.environ (any
   dictionaries), poor_Debug values are str, REQUEST_STARTTIME is present
   (the constructor reads it afterwards), app.debug is a bool. *)
Require Import PW.lib.Py PW.lib.PyDigest PW.lib.PyReqFacts PW.gen.ReqFactsGen
        PW.proofs.ReqFactsGenEq.

Theorem C20_generated_effective_debug_is_model :
  forall ei oi edbg odbg st appv b clockv,
    items_get (PStr k_poor_debug) ei = option_map PStr edbg ->
    items_get (PStr k_poor_debug) oi = option_map PStr odbg ->
    items_get (PStr k_starttime) ei = Some st ->
    gen_init_debug (PDict ei) appv (PBool b) (PDict oi) clockv
    = Py.Ok (PBool (PW.model.Debug.effective_debug
                      (denv_of ei oi edbg odbg) b)).
Proof. exact gen_init_debug_eq. Qed.
Print Assumptions C20_generated_effective_debug_is_model.
