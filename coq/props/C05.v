(* C05  What a handler returns is what the client receives. *)
From Coq Require Import ZArith List Bool String.
Require Import PW.lib.Val PW.lib.Dec PW.model.Dispatch PW.proofs.DispatchProofs PW.proofs.DispatchMore.
Import ListNotations.
Open Scope string_scope.
Open Scope list_scope.
Open Scope Z_scope.

Section C05.
  Variable known_status : Z -> bool.
  Variable reason : Z -> list Z.
  Variable isinst : exn -> Z -> bool.
  Variable builtin : Z -> bool.
  Variable page : Z -> resp.
  Hypothesis status_200 : known_status 200 = true.

  Theorem C05_str_is_utf8 :
    forall s b, utf8 s = Some b ->
      to_response known_status (PStr s)
      = Val (mkResp CBase 200 [xpb] html (Z.of_nat (List.length b)) [b]).
  Proof. exact (str_is_utf8 known_status status_200). Qed.

  Theorem C05_bytes_verbatim :
    forall b, to_response known_status (PBytes b)
      = Val (mkResp CBase 200 [xpb] html (Z.of_nat (List.length b)) [b]).
  Proof. exact (bytes_verbatim known_status status_200). Qed.

  (* dict / list incl. {} and []: the JSON text under a JSON content type *)
  Theorem C05_dict_is_json :
    forall j b, utf8 j = Some b ->
      to_response known_status (PDict (Some j))
      = Val (mkResp CBase 200 [xpb] json_ct (Z.of_nat (List.length b)) [b]).
  Proof. exact (dict_is_json known_status status_200). Qed.
  Theorem C05_list_is_json :
    forall j b, utf8 j = Some b ->
      to_response known_status (PListJson (Some j))
      = Val (mkResp CBase 200 [xpb] json_ct (Z.of_nat (List.length b)) [b]).
  Proof. exact (list_is_json known_status status_200). Qed.

  Theorem C05_none_is_204 :
    to_response known_status PNone = Val (mkResp CNoContent 204 [xpb] [] 0 []).
  Proof. exact (none_is_204 known_status status_200). Qed.
  Theorem C05_none_keeps_given_status :
    forall st, known_status st = true -> st <> 200 ->
      to_response known_status (PTuple [PNone; PStr html; PNone; PInt st])
      = Val (mkResp CNoContent st [xpb] [] 0 []).
  Proof. exact (none_keeps_given_status known_status). Qed.

  (* an iterable of bytes: exactly its chunks, in order *)
  Theorem C05_iter_in_order :
    forall ch, to_response known_status (PIter ch)
      = Val (mkResp CBase 200 [xpb] html 0 ch).
  Proof. exact (iter_in_order known_status status_200). Qed.

  (* (body, content type, headers, status) sets exactly those *)
  Theorem C05_tuple_sets_exactly :
    forall b ct hs hs' st,
      utf8 ct <> None -> iso_pairs hs = Some hs' -> known_status st = true ->
      to_response known_status (PTuple [PBytes b; PStr ct; PHdrs (Some hs); PInt st])
      = Val (mkResp CBase st hs' ct (Z.of_nat (List.length b)) [b]).
  Proof. exact (tuple_sets_exactly known_status). Qed.

  (* any other value yields 500 *)
  Theorem C05_garbage_is_response_error :
    forall v, v = PObj \/ (exists z, v = PInt z) \/ v = PDict None \/ v = PListJson None ->
      to_response known_status v = Exc ERespErr.
  Proof. exact (garbage_is_response_error known_status status_200). Qed.
  Theorem C05_garbage_is_500 :
    forall a f v,
      fconstruct f = None -> fleaf f = LEndpoint (Ret v) ->
      first_fail (before a) = None -> to_response known_status v = Exc ERespErr ->
      fst (ladder known_status isinst builtin page a f)
      = P1Resp (status_response known_status builtin page a (fmethod f) 500).
  Proof. exact (garbage_is_500 known_status isinst builtin page). Qed.

  (* every header on the response object is emitted unchanged and in order,
     for every class that answers (incl. no-content / not-modified); the
     framework appends only Content-Type / Content-Length and only when no
     header of that name is present *)
  Theorem C05_headers_preserved :
    forall r, rcls r <> CDeclined ->
      exists extra,
        calls (emit reason r) = [(status_line reason (rstatus r), rhdrs r ++ extra)] /\
        (forall h, In h extra ->
           (fst h = s2l "Content-Type" /\ has_hdr (s2l "Content-Type") (rhdrs r) = false) \/
           (fst h = s2l "Content-Length" /\
            has_hdr (s2l "Content-Length") (rhdrs r) = false /\ snd h = dec (rclen r))) /\
        (rcls r = CNoContent \/ rstatus r = 304 -> extra = []).
  Proof. exact (headers_preserved reason). Qed.
End C05.

Print Assumptions C05_str_is_utf8.
Print Assumptions C05_bytes_verbatim.
Print Assumptions C05_dict_is_json.
Print Assumptions C05_list_is_json.
Print Assumptions C05_none_is_204.
Print Assumptions C05_none_keeps_given_status.
Print Assumptions C05_iter_in_order.
Print Assumptions C05_tuple_sets_exactly.
Print Assumptions C05_garbage_is_response_error.
Print Assumptions C05_garbage_is_500.
Print Assumptions C05_headers_preserved.

(* ---- translator tie: [make_response] and [to_response] used above are
   equal to the definitions generated from the current
   poorwsgi/response.py (make_response) and poorwsgi/wsgi.py (to_response)
   by harness/py2v_shapes.py (gen/ShapesGen.v is rewritten on every check
   run), over the primitives of lib/PyShapes.v and lib/PyDispatch.v.
   [je] is the reading of a PListJson value ("it is the empty list");
   domain: 200 and 204 are registered status codes (the source rewrites
   200 to 204 for None before the constructor validates the status, the
   model validates first). *)
Require Import PW.lib.PyDispatch PW.lib.PyShapes PW.gen.ShapesGen PW.proofs.ShapesGenEq.

Theorem C05_generated_make_response_is_model :
  forall w je,
    w_known w 200 = true -> w_known w 204 = true ->
    forall d c h s,
      gen_make_response w je (DV d) (DV c) (DV h) (DV s)
      = (match make_response (w_known w) d c h s with
         | Some r => Val (DV (PResp r))
         | None => Exc ERespErr
         end, []).
Proof. exact gen_make_response_eq. Qed.
Print Assumptions C05_generated_make_response_is_model.

Theorem C05_generated_to_response_is_model :
  forall w je,
    w_known w 200 = true -> w_known w 204 = true ->
    forall v,
      gen_to_response w je (DV v) = (lift_resp (to_response (w_known w) v), []).
Proof. exact gen_to_response_eq. Qed.
Print Assumptions C05_generated_to_response_is_model.

(* the start_response call of a body-carrying response: the generated
   BaseResponse.__start_response__ (its range block, tied in gen/RangeGen.v /
   C07, replaced by `pass`; no ranges set) run on the attributes of the
   response object records exactly the call [emit] makes: status line, the
   object's headers, Content-Type / Content-Length appended only if absent *)
Theorem C05_generated_emit_is_model :
  forall w je,
    forall sr st hs ct cl units body,
      gen_start_response w je sr (DV (PInt st)) (DV (PStr (w_reason w st)))
        (DV (PHdrs (Some hs))) (DV (PStr ct)) (DV (PInt cl)) (DV (PTuple [])) units
        (DEm (mkEmitted [] []))
      = (Val (DEm (mkEmitted
                     (calls (emit (w_reason w) (mkResp CBase st hs ct cl body))) [])), []).
Proof. exact gen_start_response_eq. Qed.
Print Assumptions C05_generated_emit_is_model.

(* NoContentResponse.__start_response__ *)
Theorem C05_generated_emit_nocontent_is_model :
  forall w je,
    forall sr st hs ct cl ranges units ct0 cl0 body,
      gen_nocontent_start_response w je sr (DV (PInt st)) (DV (PStr (w_reason w st)))
        (DV (PHdrs (Some hs))) ct cl ranges units (DEm (mkEmitted [] []))
      = (Val (DEm (mkEmitted
                     (calls (emit (w_reason w) (mkResp CNoContent st hs ct0 cl0 body))) [])), []).
Proof. exact gen_nocontent_start_response_eq. Qed.
Print Assumptions C05_generated_emit_nocontent_is_model.

(* ---- generated census of the places where the framework itself names a
   response header (translator harness/py2v_hdrwrites.py ->
   gen/HeaderWritesGen.v, regenerated from response.py and wsgi.py on every
   run): every store, deletion, add / add_header / setdefault / pop by a
   literal name and every literal header collection is one of the automatic
   headers of the model (model/HeaderWrites.v) — Content-Type and
   Content-Length at emission, the range block, the constructor arguments of
   the special classes, X-Powered-By of a response built without headers.
   The framework touches no other header of a response on its own. *)
From Coq Require Import String.
Local Open Scope string_scope.
Local Open Scope list_scope.
Require Import PW.model.HeaderWrites PW.gen.HeaderWritesGen.

Theorem C05_generated_automatic_headers_are_the_modelled_ones :
  (forall w, In w header_writes -> In w allowed_header_writes) /\
  In ("response.BaseResponse.__start_response__", "self.__headers", "add",
      "Content-Type") header_writes /\
  In ("response.BaseResponse.__start_response__", "self.__headers", "add",
      "Content-Length") header_writes.
Proof.
  split; [apply header_writes_ok_spec; vm_compute; reflexivity|].
  split; vm_compute; tauto.
Qed.
Print Assumptions C05_generated_automatic_headers_are_the_modelled_ones.

(* ---- generated constructors of the response classes (translator
   harness/py2v_classes.py -> gen/ClassesGen.v, regenerated from
   poorwsgi/response.py on every run; primitives lib/PyClasses.v): each
   builds, for all arguments, what the model's constructor primitives of
   lib/PyShapes.v build.  [ce : cenv] holds what is uninterpreted: ce_ih =
   isinstance(_, Headers), ce_idt = isinstance(_, datetime), ce_t2h / ce_d2h
   = time_to_http / datetime_to_http, ... (lib/PyClasses.v). *)
Require Import PW.lib.PyAbort PW.lib.PyClasses PW.gen.ClassesGen PW.proofs.ClassesGenEq.

(* BaseResponse.__init__ = base_init: content type, headers, status of the
   object it leaves, or no object where the model has none.  Domain: a
   Headers object is a usable headers collection; the content type has no
   lone surrogate (known deviation of the model's mk_ctype) *)
Theorem C05_generated_base_init_is_model :
  forall w ce,
    (forall x, ce_ih ce x = true ->
               exists l hs, x = DV (PHdrs (Some l)) /\ iso_pairs l = Some hs) ->
    forall s0 c h s,
      (forall t, c = DV (PStr t) -> utf8 t <> None) ->
      match fst (gen_base_init w ce s0 c h s) with
      | Val o => obj_triple o
      | Exc _ => None
      end = base_init w c h s.
Proof. exact gen_base_init_eq. Qed.
Print Assumptions C05_generated_base_init_is_model.

(* NoContentResponse.__init__ (default status 204 from its signature) *)
Theorem C05_generated_nocontent_init_is_model :
  forall w ce,
    (forall x, ce_ih ce x = true ->
               exists l hs, x = DV (PHdrs (Some l)) /\ iso_pairs l = Some hs) ->
    (forall h s,
      match fst (gen_nocontent_init w ce [] h s) with
      | Val o => obj_resp ce CNoContent o
      | Exc _ => None
      end
      = match fst (c_NoContentResponse w h s) with
        | Val (DV (PResp r)) => Some r
        | _ => None
        end) /\
    gen_nocontent_init_defaults = [DV PNone; DV (PInt 204)] /\
    gen_base_init_defaults = [DV (PStr []); DV PNone; DV (PInt 200)].
Proof.
  intros w ce H. split; [|split; reflexivity].
  exact (gen_nocontent_init_eq w ce H).
Qed.
Print Assumptions C05_generated_nocontent_init_is_model.

(* JSONResponse.__init__ = c_JSONResponse, on the domain the model has: no
   encoder_kwargs, charset a str, no **kwargs (an empty dict is falsy) *)
Theorem C05_generated_json_response_init_is_model :
  forall w ce data cs h s kw,
    truthy kw = false ->
    gen_json_response_init w ce data (DV (PStr cs)) h s (DV PNone) kw
    = c_JSONResponse w data (DV (PStr cs)) h s (DV PNone).
Proof. intros w ce. exact (gen_json_response_init_eq w ce). Qed.
Print Assumptions C05_generated_json_response_init_is_model.

(* TextResponse.__init__ : Response(text, "text/plain" [+ "; charset=" +
   charset], headers, status_code) through the model's c_Response *)
Theorem C05_generated_text_response_init_is_model :
  forall w ce text cs h s,
    gen_text_response_init w ce text (DV (PStr cs)) h s
    = c_Response w text
        (DV (PStr (s2l "text/plain" ++
                   match cs with [] => [] | _ => s2l "; charset=" ++ cs end)))
        h s.
Proof. intros w ce. exact (gen_text_response_init_eq w ce). Qed.
Print Assumptions C05_generated_text_response_init_is_model.

(* NotModifiedResponse.__init__ : NoContentResponse(headers, 304) of the
   model, then ETag, Content-Location, Date, Vary appended in this order,
   each only if its argument is given (ClassesGenEq.notmodified_response) *)
Theorem C05_generated_notmodified_init_is_model :
  forall w ce,
    (forall x, ce_ih ce x = true ->
               exists l hs, x = DV (PHdrs (Some l)) /\ iso_pairs l = Some hs) ->
    forall h etag cloc date vary,
      match fst (gen_notmodified_init w ce [] h etag cloc date vary) with
      | Val o => obj_resp ce CNoContent o
      | Exc _ => None
      end
      = match fst (bind (c_NoContentResponse w h (DV (PInt 304))) (fun r0 =>
                   bind (add_if (truthy etag) "ETag" etag r0) (fun r1 =>
                   bind (add_if (truthy cloc) "Content-Location" cloc r1) (fun r2 =>
                   bind (if cl_isinstance date [ClStr] && truthy date
                         then resp_add_header r2 (hname "Date") date
                         else if cl_isinstance date [ClInt]
                              then resp_add_header r2 (hname "Date") (ce_t2h ce date)
                              else add_if (ce_idt ce date) "Date" (ce_d2h ce date) r2) (fun r3 =>
                   add_if (truthy vary) "Vary" vary r3))))) with
        | Val (DV (PResp r)) => Some r
        | _ => None
        end.
Proof. intros w ce H. exact (gen_notmodified_init_eq w ce H). Qed.
Print Assumptions C05_generated_notmodified_init_is_model.

(* FileResponse.__init__ (and FileObjResponse.__init__ under it, without the
   length bookkeeping gen/ClenGen.v ties): ClassesGenEq.file_response =
   IOError unless access(path, R_OK); content type = the argument, else
   mimetypes.guess_type(path)[0], else "application/octet-stream"; the file
   opened 'rb' unbuffered, which must be a readable binary stream; the
   model's base_init of (content type, headers, status) as a CBase response
   whose length and body are the file's; make_partial() (Accept-Ranges:
   bytes iff the status is 200); then Last-Modified =
   time_to_http(getctime(path)) unless the headers already have one.
   Domain: as for base_init; the length is an int *)
Theorem C05_generated_file_response_init_is_model :
  forall w ce,
    (forall x, ce_ih ce x = true ->
               exists l hs, x = DV (PHdrs (Some l)) /\ iso_pairs l = Some hs) ->
    (forall f, exists n, ce_flen ce f = DV (PInt n)) ->
    (forall f ctype h s,
      (forall t, fileobj_ctype ctype = DV (PStr t) -> utf8 t <> None) ->
      match fst (gen_fileobj_init w ce [] f ctype h s) with
      | Val o => obj_resp ce CBase o
      | Exc _ => None
      end
      = match fst (fileobj_response w ce f ctype h s) with
        | Val (DV (PResp r)) => Some r
        | _ => None
        end) /\
    (forall path ctype h s,
      (forall t, fileobj_ctype (if is_none ctype then ce_mime ce path else ctype)
                 = DV (PStr t) -> utf8 t <> None) ->
      match fst (gen_file_response_init w ce [] path ctype h s) with
      | Val o => obj_resp ce CBase o
      | Exc _ => None
      end
      = match fst (file_response w ce path ctype h s) with
        | Val (DV (PResp r)) => Some r
        | _ => None
        end).
Proof.
  intros w ce H1 H2. split.
  - exact (gen_fileobj_init_eq w ce H1 H2).
  - exact (gen_file_response_init_eq w ce H1 H2).
Qed.
Print Assumptions C05_generated_file_response_init_is_model.

(* GeneratorResponse.__init__ = c_GeneratorResponse (content type, headers,
   status through base_init; the length and the iterable of bytes kept) *)
Theorem C05_generated_generator_init_is_model :
  forall w ce,
    (forall x, ce_ih ce x = true ->
               exists l hs, x = DV (PHdrs (Some l)) /\ iso_pairs l = Some hs) ->
    forall g c h s n,
      (forall t, c = DV (PStr t) -> utf8 t <> None) ->
      match fst (gen_generator_init w ce [] g c h s n) with
      | Val o => generator_view ce o
      | Exc _ => None
      end
      = match fst (c_GeneratorResponse w g c h s n) with
        | Val (DV (PResp r)) => Some r
        | _ => None
        end.
Proof. intros w ce H. exact (gen_generator_init_eq w ce H). Qed.
Print Assumptions C05_generated_generator_init_is_model.
