(* C05  What a handler returns is what the client receives. *)
From Coq Require Import ZArith List Bool String.
Require Import PW.lib.Val PW.lib.Dec PW.model.Dispatch PW.proofs.DispatchProofs PW.proofs.DispatchMore.
Import ListNotations.
Open Scope string_scope.
Open Scope list_scope.
Open Scope Z_scope.

Section C05.
  Variable known_status : Z -> bool.
  Variable reason : Z -> list Z.
  Variable isinst : exn -> Z -> bool.
  Variable builtin : Z -> bool.
  Variable page : Z -> resp.
  Hypothesis status_200 : known_status 200 = true.

  Theorem C05_str_is_utf8 :
    forall s b, utf8 s = Some b ->
      to_response known_status (PStr s)
      = Val (mkResp CBase 200 [xpb] html (Z.of_nat (List.length b)) [b]).
  Proof. exact (str_is_utf8 known_status status_200). Qed.

  Theorem C05_bytes_verbatim :
    forall b, to_response known_status (PBytes b)
      = Val (mkResp CBase 200 [xpb] html (Z.of_nat (List.length b)) [b]).
  Proof. exact (bytes_verbatim known_status status_200). Qed.

  (* dict / list incl. {} and []: the JSON text under a JSON content type *)
  Theorem C05_dict_is_json :
    forall j b, utf8 j = Some b ->
      to_response known_status (PDict (Some j))
      = Val (mkResp CBase 200 [xpb] json_ct (Z.of_nat (List.length b)) [b]).
  Proof. exact (dict_is_json known_status status_200). Qed.
  Theorem C05_list_is_json :
    forall j b, utf8 j = Some b ->
      to_response known_status (PListJson (Some j))
      = Val (mkResp CBase 200 [xpb] json_ct (Z.of_nat (List.length b)) [b]).
  Proof. exact (list_is_json known_status status_200). Qed.

  Theorem C05_none_is_204 :
    to_response known_status PNone = Val (mkResp CNoContent 204 [xpb] [] 0 []).
  Proof. exact (none_is_204 known_status status_200). Qed.
  Theorem C05_none_keeps_given_status :
    forall st, known_status st = true -> st <> 200 ->
      to_response known_status (PTuple [PNone; PStr html; PNone; PInt st])
      = Val (mkResp CNoContent st [xpb] [] 0 []).
  Proof. exact (none_keeps_given_status known_status). Qed.

  (* an iterable of bytes: exactly its chunks, in order *)
  Theorem C05_iter_in_order :
    forall ch, to_response known_status (PIter ch)
      = Val (mkResp CBase 200 [xpb] html 0 ch).
  Proof. exact (iter_in_order known_status status_200). Qed.

  (* (body, content type, headers, status) sets exactly those *)
  Theorem C05_tuple_sets_exactly :
    forall b ct hs hs' st,
      utf8 ct <> None -> iso_pairs hs = Some hs' -> known_status st = true ->
      to_response known_status (PTuple [PBytes b; PStr ct; PHdrs (Some hs); PInt st])
      = Val (mkResp CBase st hs' ct (Z.of_nat (List.length b)) [b]).
  Proof. exact (tuple_sets_exactly known_status). Qed.

  (* any other value yields 500 *)
  Theorem C05_garbage_is_response_error :
    forall v, v = PObj \/ (exists z, v = PInt z) \/ v = PDict None \/ v = PListJson None ->
      to_response known_status v = Exc ERespErr.
  Proof. exact (garbage_is_response_error known_status status_200). Qed.
  Theorem C05_garbage_is_500 :
    forall a f v,
      fconstruct f = None -> fleaf f = LEndpoint (Ret v) ->
      first_fail (before a) = None -> to_response known_status v = Exc ERespErr ->
      fst (ladder known_status isinst builtin page a f)
      = P1Resp (status_response known_status builtin page a (fmethod f) 500).
  Proof. exact (garbage_is_500 known_status isinst builtin page). Qed.

  (* every header on the response object is emitted unchanged and in order,
     for every class that answers (incl. no-content / not-modified); the
     framework appends only Content-Type / Content-Length and only when no
     header of that name is present *)
  Theorem C05_headers_preserved :
    forall r, rcls r <> CDeclined ->
      exists extra,
        calls (emit reason r) = [(status_line reason (rstatus r), rhdrs r ++ extra)] /\
        (forall h, In h extra ->
           (fst h = s2l "Content-Type" /\ has_hdr (s2l "Content-Type") (rhdrs r) = false) \/
           (fst h = s2l "Content-Length" /\
            has_hdr (s2l "Content-Length") (rhdrs r) = false /\ snd h = dec (rclen r))) /\
        (rcls r = CNoContent \/ rstatus r = 304 -> extra = []).
  Proof. exact (headers_preserved reason). Qed.
End C05.

Print Assumptions C05_str_is_utf8.
Print Assumptions C05_bytes_verbatim.
Print Assumptions C05_dict_is_json.
Print Assumptions C05_list_is_json.
Print Assumptions C05_none_is_204.
Print Assumptions C05_none_keeps_given_status.
Print Assumptions C05_iter_in_order.
Print Assumptions C05_tuple_sets_exactly.
Print Assumptions C05_garbage_is_response_error.
Print Assumptions C05_garbage_is_500.
Print Assumptions C05_headers_preserved.

(* ---- translator tie: [make_response] and [to_response] used above are
   equal to the definitions generated from the current
   poorwsgi/response.py (make_response) and poorwsgi/wsgi.py (to_response)
   by harness/py2v_shapes.py (gen/ShapesGen.v is rewritten on every check
   run), over the primitives of lib/PyShapes.v and lib/PyDispatch.v.
   [je] is the reading of a PListJson value ("it is the empty list");
   domain: 200 and 204 are registered status codes (the source rewrites
   200 to 204 for None before the constructor validates the status, the
   model validates first). *)
Require Import PW.lib.PyDispatch PW.lib.PyShapes PW.gen.ShapesGen PW.proofs.ShapesGenEq.

Theorem C05_generated_make_response_is_model :
  forall w je,
    w_known w 200 = true -> w_known w 204 = true ->
    forall d c h s,
      gen_make_response w je (DV d) (DV c) (DV h) (DV s)
      = (match make_response (w_known w) d c h s with
         | Some r => Val (DV (PResp r))
         | None => Exc ERespErr
         end, []).
Proof. exact gen_make_response_eq. Qed.
Print Assumptions C05_generated_make_response_is_model.

Theorem C05_generated_to_response_is_model :
  forall w je,
    w_known w 200 = true -> w_known w 204 = true ->
    forall v,
      gen_to_response w je (DV v) = (lift_resp (to_response (w_known w) v), []).
Proof. exact gen_to_response_eq. Qed.
Print Assumptions C05_generated_to_response_is_model.

(* the start_response call of a body-carrying response: the generated
   BaseResponse.__start_response__ (its range block, tied in gen/RangeGen.v /
   C07, replaced by `pass`; no ranges set) run on the attributes of the
   response object records exactly the call [emit] makes: status line, the
   object's headers, Content-Type / Content-Length appended only if absent *)
Theorem C05_generated_emit_is_model :
  forall w je,
    forall sr st hs ct cl units body,
      gen_start_response w je sr (DV (PInt st)) (DV (PStr (w_reason w st)))
        (DV (PHdrs (Some hs))) (DV (PStr ct)) (DV (PInt cl)) (DV (PTuple [])) units
        (DEm (mkEmitted [] []))
      = (Val (DEm (mkEmitted
                     (calls (emit (w_reason w) (mkResp CBase st hs ct cl body))) [])), []).
Proof. exact gen_start_response_eq. Qed.
Print Assumptions C05_generated_emit_is_model.

(* NoContentResponse.__start_response__ *)
Theorem C05_generated_emit_nocontent_is_model :
  forall w je,
    forall sr st hs ct cl ranges units ct0 cl0 body,
      gen_nocontent_start_response w je sr (DV (PInt st)) (DV (PStr (w_reason w st)))
        (DV (PHdrs (Some hs))) ct cl ranges units (DEm (mkEmitted [] []))
      = (Val (DEm (mkEmitted
                     (calls (emit (w_reason w) (mkResp CNoContent st hs ct0 cl0 body))) [])), []).
Proof. exact gen_nocontent_start_response_eq. Qed.
Print Assumptions C05_generated_emit_nocontent_is_model.

(* ---- generated census of the places where the framework itself names a
   response header (translator harness/py2v_hdrwrites.py ->
   gen/HeaderWritesGen.v, regenerated from response.py and wsgi.py on every
   run): every store, deletion, add / add_header / setdefault / pop by a
   literal name and every literal header collection is one of the automatic
   headers of the model (model/HeaderWrites.v) — Content-Type and
   Content-Length at emission, the range block, the constructor arguments of
   the special classes, X-Powered-By of a response built without headers.
   The framework touches no other header of a response on its own. *)
From Coq Require Import String.
Local Open Scope string_scope.
Local Open Scope list_scope.
Require Import PW.model.HeaderWrites PW.gen.HeaderWritesGen.

Theorem C05_generated_automatic_headers_are_the_modelled_ones :
  (forall w, In w header_writes -> In w allowed_header_writes) /\
  In ("response.BaseResponse.__start_response__", "self.__headers", "add",
      "Content-Type") header_writes /\
  In ("response.BaseResponse.__start_response__", "self.__headers", "add",
      "Content-Length") header_writes.
Proof.
  split; [apply header_writes_ok_spec; vm_compute; reflexivity|].
  split; vm_compute; tauto.
Qed.
Print Assumptions C05_generated_automatic_headers_are_the_modelled_ones.
