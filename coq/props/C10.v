(* C10  Query, form and JSON data reach handlers exactly as sent.
   Statements only; every proof is [exact <lemma of proofs/QueryFormProofs.v>].
   Strings are lists of code points, bytes lists of byte values.  All
   statements quantify over every pair list / text / configuration. *)
From Coq Require Import ZArith List Bool String.
Require Import PW.lib.Val PW.model.QueryForm PW.proofs.QueryFormProofs.
Import ListNotations.
Open Scope Z_scope.

(* UTF-8: decoding the encoding of any text of Unicode scalar values gives
   the text back (proved arithmetically, no hypothesis left) *)
Theorem C10_utf8_roundtrip :
  forall s, valid_scalar_text s -> utf8_dec (utf8_enc s) = s.
Proof. exact utf8_roundtrip. Qed.
Print Assumptions C10_utf8_roundtrip.

(* quote_plus/urlencode then parse_qsl: exactly the pairs, blanks kept or
   dropped per keep_blank_values *)
Theorem C10_qsl_roundtrip :
  forall pairs keep, valid_pairs pairs ->
    parse_qsl keep (encode pairs) =
    if keep then pairs else filter nonblank pairs.
Proof. exact qsl_roundtrip. Qed.
Print Assumptions C10_qsl_roundtrip.

(* the same for every legal encoding of the pairs ([qs_of]: visible ASCII
   literal, '+' or %20 for a space, %XX with hex digits of either case for
   any byte, empty pieces between '&') *)
Theorem C10_qsl_decodes_any_encoding :
  forall keep q pairs, qs_of q pairs -> valid_pairs pairs ->
    parse_qsl keep q = if keep then pairs else filter nonblank pairs.
Proof. exact qsl_decodes. Qed.
Print Assumptions C10_qsl_decodes_any_encoding.

(* QUERY_STRING -> req.args : strip, parse_qs, collapse *)
Theorem C10_args_roundtrip :
  forall keep q pairs, qs_of q pairs -> valid_pairs pairs ->
    args_of keep q =
    args_dict (if keep then pairs else filter nonblank pairs).
Proof. exact args_roundtrip. Qed.
Print Assumptions C10_args_roundtrip.

(* urlencoded body -> fields of req.form *)
Theorem C10_form_roundtrip :
  forall keep q pairs, qs_of q pairs -> valid_pairs pairs ->
    form_fields keep q = if keep then pairs else filter nonblank pairs.
Proof. exact form_roundtrip. Qed.
Print Assumptions C10_form_roundtrip.

(* single keys scalar, repeated keys lists in order, other keys absent *)
Theorem C10_args_collapse :
  forall pairs k,
    lookup k (args_dict pairs) =
    match vals k pairs with
    | [] => None
    | [v] => Some (AS v)
    | vs => Some (AL vs)
    end.
Proof. exact args_collapse. Qed.
Print Assumptions C10_args_collapse.

Theorem C10_args_key_order :
  forall pairs, map fst (args_dict pairs) = first_occ [] (map fst pairs).
Proof. exact args_key_order. Qed.
Print Assumptions C10_args_key_order.

(* Args: getlist = all values of k in order, getfirst = the first,
   getvalue = scalar or list *)
Theorem C10_accessors_agree_args :
  forall pairs k,
    a_getlist (args_dict pairs) k = TList (map Some (vals k pairs)) /\
    a_getfirst (args_dict pairs) k =
      match vals k pairs with [] => TNone | v :: _ => TStr v end /\
    a_getvalue (args_dict pairs) k =
      match vals k pairs with
      | [] => TNone | [v] => TStr v | vs => TList (map Some vs)
      end.
Proof. exact args_accessors. Qed.
Print Assumptions C10_accessors_agree_args.

(* FieldStorage (fields of a urlencoded body, blank values included) *)
Theorem C10_accessors_agree_form :
  forall fields k,
    f_getlist fields k = TList (map Some (vals k fields)) /\
    f_getfirst fields k =
      match vals k fields with [] => TNone | v :: _ => TStr v end /\
    f_getvalue fields k =
      match vals k fields with
      | [] => TNone | [v] => TStr v | vs => TList (map Some vs)
      end.
Proof. exact form_accessors. Qed.
Print Assumptions C10_accessors_agree_form.

(* JsonDict: getvalue is the value, getlist the list (or the one-element
   list), getfirst the first element or the default *)
Theorem C10_accessors_agree_jsondict :
  forall d k,
    match lookup k d with
    | None => jd_getvalue d k = JRNone /\ jd_getfirst d k = JRNone /\
              jd_getlist d k = JRVal (JArr [])
    | Some (JArr l) =>
        jd_getvalue d k = JRVal (JArr l) /\ jd_getlist d k = JRVal (JArr l) /\
        jd_getfirst d k = match l with [] => JRNone | x :: _ => JRVal x end
    | Some j => jd_getvalue d k = JRVal j /\ jd_getfirst d k = JRVal j /\
                jd_getlist d k = JRVal (JArr [j])
    end.
Proof. exact jsondict_accessors. Qed.
Print Assumptions C10_accessors_agree_jsondict.

Theorem C10_accessors_agree_jsonlist :
  forall l,
    jl_getlist l = JRVal (JArr l) /\
    jl_getvalue l = match l with [] => JRNone | x :: _ => JRVal x end /\
    jl_getfirst l = jl_getvalue l.
Proof. exact jsonlist_accessors. Qed.
Print Assumptions C10_accessors_agree_jsonlist.

Theorem C10_accessors_agree_emptyform :
  forall k, e_getvalue k = TNone /\ e_getfirst k = TNone /\
            e_getlist k = TList [].
Proof. exact empty_accessors. Qed.
Print Assumptions C10_accessors_agree_emptyform.

(* a body that cannot be decoded or parsed is the 400 outcome, for every
   decoder and JSON parser *)
Theorem C10_bad_json_is_400 :
  forall decode loads raw charset,
    (decode charset raw = None \/
     exists t, decode charset raw = Some t /\ loads t = None) ->
    parse_json_request decode loads raw charset = J400.
Proof. exact bad_json_400. Qed.
Print Assumptions C10_bad_json_is_400.

(* Body budget.  Full statement (false, see the refutation):
     forall c, exists n, plan_cost (body_plan c) = Some n /\
                         n <= Z.max 0 (clen c).
   Proved: for every configuration except (a) HTTP/0.9 without a length and
   (b) [raw_lines c]: the multipart (or length-less single part) parser
   working on the raw stream (cached_size = 0 and the body not buffered). *)
Theorem C10_body_budget_partial :
  forall c,
    (http09 c = false \/ 0 <= clen c) -> raw_lines c = false ->
    exists n, plan_cost (body_plan c) = Some n /\ n <= Z.max 0 (clen c).
Proof. exact body_budget. Qed.
Print Assumptions C10_body_budget_partial.

Theorem C10_raw_lines_unbounded :
  forall c, raw_lines c = true ->
    body_plan c = [RLines] /\ plan_cost (body_plan c) = None.
Proof. exact raw_lines_unbounded. Qed.
Print Assumptions C10_raw_lines_unbounded.

Theorem C10_body_budget_refuted :
  exists c, http09 c = false /\ 0 < clen c /\
            plan_cost (body_plan c) = None.
Proof. exact body_budget_refuted. Qed.
Print Assumptions C10_body_budget_refuted.

(* ---------------------------------------------------------------------
   Translator tie (T): the request-data containers are regenerated from
   poorwsgi/request.py and poorwsgi/fieldstorage.py on every run
   (harness/py2v_form.py -> gen/FormGen.v, Python semantics lib/PyForm.v)
   and proved equal to the hand model above, for every container content,
   key, default and conversion callback (proofs/FormGenEq.v).
   [*_func_is_model]: which values the callback `func` / `fce` is applied
   to and where the default is answered; [*_is_model]: called with the
   generated default values of the parameters (the way the correspondence
   calls them) the accessor answers the model's result. *)
Require Import PW.lib.PyForm PW.gen.FormGen PW.proofs.FormGenEq.

(* -- (1) SimpleRequest.query, Args.__init__, the accessors Args inherits *)
Theorem C10_generated_query_is_model :
  forall c env qs,
    dict_lookup (FStr QUERY_STRING) env = Some (FStr qs) \/
    (dict_lookup (FStr QUERY_STRING) env = None /\ qs = []) ->
    gen_SimpleRequest_query (FDict c env) = Ok (FStr (strip qs)).
Proof. exact query_is_model. Qed.
Print Assumptions C10_generated_query_is_model.

Theorem C10_generated_args_init_is_model :
  forall c env qs keep kb,
    dict_lookup (FStr QUERY_STRING) env = Some (FStr qs) \/
    (dict_lookup (FStr QUERY_STRING) env = None /\ qs = []) ->
    p_truth keep = Ok kb ->
    gen_Args_init (FDict DArgs []) (FDict c env) keep gen_Args_init_default_3 =
    Ok (emb_args (args_of kb qs)).
Proof. exact args_init_is_model. Qed.
Print Assumptions C10_generated_args_init_is_model.

Theorem C10_generated_args_getvalue_is_model :
  forall apply d k,
    gen_Args_getvalue apply (emb_args d) (FStr k)
      gen_iface_getvalue_default_2 gen_iface_getvalue_default_3 =
    emb_tres (a_getvalue d k).
Proof. exact args_getvalue_is_model. Qed.
Print Assumptions C10_generated_args_getvalue_is_model.

Theorem C10_generated_args_getfirst_is_model :
  forall apply d k,
    gen_Args_getfirst apply (emb_args d) (FStr k)
      gen_iface_getfirst_default_2 gen_iface_getfirst_default_3
      gen_iface_getfirst_default_4 =
    emb_tres (a_getfirst d k).
Proof. exact args_getfirst_is_model. Qed.
Print Assumptions C10_generated_args_getfirst_is_model.

Theorem C10_generated_args_getlist_is_model :
  forall apply d k,
    gen_Args_getlist apply (emb_args d) (FStr k)
      gen_iface_getlist_default_2 gen_iface_getlist_default_3
      gen_iface_getlist_default_4 =
    emb_tres (a_getlist d k).
Proof. exact args_getlist_is_model. Qed.
Print Assumptions C10_generated_args_getlist_is_model.

Theorem C10_generated_args_getvalue_func_is_model :
  forall apply d k dflt f,
    gen_Args_getvalue apply (emb_args d) (FStr k) dflt f =
    match lookup k d with
    | None => Ok dflt
    | Some a => p_call apply f (emb_aval a)
    end.
Proof. exact args_getvalue_spec. Qed.
Print Assumptions C10_generated_args_getvalue_func_is_model.

Theorem C10_generated_args_getfirst_func_is_model :
  forall apply d k dflt f fce b,
    p_truth fce = Ok b ->
    gen_Args_getfirst apply (emb_args d) (FStr k) dflt f fce =
    match lookup k d with
    | None => Ok dflt
    | Some (AS s) => p_call apply (pick b fce f) (FStr s)
    | Some (AL []) => Ok dflt
    | Some (AL (x :: _)) => p_call apply (pick b fce f) (FStr x)
    end.
Proof. exact args_getfirst_spec. Qed.
Print Assumptions C10_generated_args_getfirst_func_is_model.

Theorem C10_generated_args_getlist_func_is_model :
  forall apply d k dflt f fce b bd,
    p_truth fce = Ok b -> p_truth dflt = Ok bd ->
    gen_Args_getlist apply (emb_args d) (FStr k) dflt f fce =
    match lookup k d with
    | None => Ok (or_empty bd dflt)
    | Some (AS s) => bind (p_call apply (pick b fce f) (FStr s))
                          (fun v => Ok (FList LPlain [v]))
    | Some (AL l) => bind (map_res (p_call apply (pick b fce f)) (map FStr l))
                          (fun vs => Ok (FList LPlain vs))
    end.
Proof. exact args_getlist_spec. Qed.
Print Assumptions C10_generated_args_getlist_func_is_model.

(* -- (3) EmptyForm, JsonDict (inherited accessors), JsonList *)
Theorem C10_generated_emptyform_getvalue_is_model :
  forall self k,
    gen_EmptyForm_getvalue self (FStr k) gen_EmptyForm_getvalue_default_2
      gen_EmptyForm_getvalue_default_3 = emb_tres (e_getvalue k).
Proof. exact empty_getvalue_is_model. Qed.
Print Assumptions C10_generated_emptyform_getvalue_is_model.

Theorem C10_generated_emptyform_getfirst_is_model :
  forall self k,
    gen_EmptyForm_getfirst self (FStr k) gen_EmptyForm_getfirst_default_2
      gen_EmptyForm_getfirst_default_3 gen_EmptyForm_getfirst_default_4 =
    emb_tres (e_getfirst k).
Proof. exact empty_getfirst_is_model. Qed.
Print Assumptions C10_generated_emptyform_getfirst_is_model.

Theorem C10_generated_emptyform_getlist_is_model :
  forall self k,
    gen_EmptyForm_getlist self (FStr k) gen_EmptyForm_getlist_default_2
      gen_EmptyForm_getlist_default_3 gen_EmptyForm_getlist_default_4 =
    emb_tres (e_getlist k).
Proof. exact empty_getlist_is_model. Qed.
Print Assumptions C10_generated_emptyform_getlist_is_model.

(* whatever is handed in: the default, never a conversion *)
Theorem C10_generated_emptyform_func_is_model :
  forall self k dflt f fce b bd,
    p_truth fce = Ok b -> p_truth dflt = Ok bd ->
    gen_EmptyForm_getvalue self k dflt f = Ok dflt /\
    gen_EmptyForm_getfirst self k dflt f fce = Ok dflt /\
    gen_EmptyForm_getlist self k dflt f fce = Ok (or_empty bd dflt).
Proof.
  intros self k dflt f fce b bd Hb Hd. split; [|split].
  - apply empty_getvalue_spec.
  - exact (empty_getfirst_spec self k dflt f fce b Hb).
  - exact (empty_getlist_spec self k dflt f fce b bd Hb Hd).
Qed.
Print Assumptions C10_generated_emptyform_func_is_model.

Theorem C10_generated_jsondict_getvalue_is_model :
  forall apply d k dflt,
    gen_JsonDict_getvalue apply (emb_jsondict d) (FStr k) dflt
      gen_iface_getvalue_default_3 = emb_jres dflt (jd_getvalue d k).
Proof. exact jsondict_getvalue_is_model. Qed.
Print Assumptions C10_generated_jsondict_getvalue_is_model.

Theorem C10_generated_jsondict_getfirst_is_model :
  forall apply d k dflt,
    gen_JsonDict_getfirst apply (emb_jsondict d) (FStr k) dflt
      gen_iface_getfirst_default_3 gen_iface_getfirst_default_4 =
    emb_jres dflt (jd_getfirst d k).
Proof. exact jsondict_getfirst_is_model. Qed.
Print Assumptions C10_generated_jsondict_getfirst_is_model.

Theorem C10_generated_jsondict_getlist_is_model :
  forall apply d k,
    gen_JsonDict_getlist apply (emb_jsondict d) (FStr k)
      gen_iface_getlist_default_2 gen_iface_getlist_default_3
      gen_iface_getlist_default_4 =
    emb_jres gen_iface_getlist_default_2 (jd_getlist d k).
Proof. exact jsondict_getlist_is_model. Qed.
Print Assumptions C10_generated_jsondict_getlist_is_model.

Theorem C10_generated_jsondict_getvalue_func_is_model :
  forall apply d k dflt f,
    gen_JsonDict_getvalue apply (emb_jsondict d) (FStr k) dflt f =
    match lookup k d with
    | None => Ok dflt
    | Some j => p_call apply f (emb_j j)
    end.
Proof. exact jsondict_getvalue_spec. Qed.
Print Assumptions C10_generated_jsondict_getvalue_func_is_model.

Theorem C10_generated_jsondict_getfirst_func_is_model :
  forall apply d k dflt f fce b,
    p_truth fce = Ok b ->
    gen_JsonDict_getfirst apply (emb_jsondict d) (FStr k) dflt f fce =
    match lookup k d with
    | None => Ok dflt
    | Some (JArr []) => Ok dflt
    | Some (JArr (x :: _)) => p_call apply (pick b fce f) (emb_j x)
    | Some j => p_call apply (pick b fce f) (emb_j j)
    end.
Proof. exact jsondict_getfirst_spec. Qed.
Print Assumptions C10_generated_jsondict_getfirst_func_is_model.

Theorem C10_generated_jsondict_getlist_func_is_model :
  forall apply d k dflt f fce b bd,
    p_truth fce = Ok b -> p_truth dflt = Ok bd ->
    gen_JsonDict_getlist apply (emb_jsondict d) (FStr k) dflt f fce =
    match lookup k d with
    | None => Ok (or_empty bd dflt)
    | Some (JArr l) =>
        bind (map_res (p_call apply (pick b fce f)) (map emb_j l))
             (fun vs => Ok (FList LPlain vs))
    | Some j => bind (p_call apply (pick b fce f) (emb_j j))
                     (fun v => Ok (FList LPlain [v]))
    end.
Proof. exact jsondict_getlist_spec. Qed.
Print Assumptions C10_generated_jsondict_getlist_func_is_model.

Theorem C10_generated_jsonlist_getvalue_is_model :
  forall apply l k dflt,
    gen_JsonList_getvalue apply (emb_jsonlist l) k dflt
      gen_JsonList_getvalue_default_3 = emb_jres dflt (jl_getvalue l).
Proof. exact jsonlist_getvalue_is_model. Qed.
Print Assumptions C10_generated_jsonlist_getvalue_is_model.

Theorem C10_generated_jsonlist_getfirst_is_model :
  forall apply l k dflt,
    gen_JsonList_getfirst apply (emb_jsonlist l) k dflt
      gen_JsonList_getfirst_default_3 gen_JsonList_getfirst_default_4 =
    emb_jres dflt (jl_getfirst l).
Proof. exact jsonlist_getfirst_is_model. Qed.
Print Assumptions C10_generated_jsonlist_getfirst_is_model.

Theorem C10_generated_jsonlist_getlist_is_model :
  forall apply l k,
    gen_JsonList_getlist apply (emb_jsonlist l) k
      gen_JsonList_getlist_default_2 gen_JsonList_getlist_default_3
      gen_JsonList_getlist_default_4 =
    emb_jres gen_JsonList_getlist_default_2 (jl_getlist l).
Proof. exact jsonlist_getlist_is_model. Qed.
Print Assumptions C10_generated_jsonlist_getlist_is_model.

Theorem C10_generated_jsonlist_func_is_model :
  forall apply l k dflt f fce b bd,
    p_truth fce = Ok b -> p_truth dflt = Ok bd ->
    gen_JsonList_getvalue apply (emb_jsonlist l) k dflt f =
      match l with
      | [] => Ok dflt
      | x :: _ => p_call apply f (emb_j x)
      end /\
    gen_JsonList_getfirst apply (emb_jsonlist l) k dflt f fce =
      match l with
      | [] => Ok dflt
      | x :: _ => p_call apply (pick b fce f) (emb_j x)
      end /\
    gen_JsonList_getlist apply (emb_jsonlist l) k dflt f fce =
      match l with
      | [] => Ok (or_empty bd dflt)
      | _ => bind (map_res (p_call apply (pick b fce f)) (map emb_j l))
                  (fun vs => Ok (FList LPlain vs))
      end.
Proof.
  intros apply l k dflt f fce b bd Hb Hd. split; [|split].
  - apply jsonlist_getvalue_spec.
  - exact (jsonlist_getfirst_spec apply l k dflt f fce b Hb).
  - exact (jsonlist_getlist_spec apply l k dflt f fce b bd Hb Hd).
Qed.
Print Assumptions C10_generated_jsonlist_func_is_model.

(* -- (2) FieldStorage *)
(* .value of a field made by read_urlencoded: its string, '' included *)
Theorem C10_generated_form_value_is_model :
  forall f, gen_FieldStorage_value (emb_field f) = Ok (emb_okz (fval (snd f))).
Proof. exact form_value_is_model. Qed.
Print Assumptions C10_generated_form_value_is_model.

Theorem C10_generated_form_contains_is_model :
  forall fs k,
    gen_FieldStorage_contains (emb_form fs) (FStr k) =
    Ok (FBool (f_contains fs k)).
Proof. exact form_contains_is_model. Qed.
Print Assumptions C10_generated_form_contains_is_model.

Theorem C10_generated_form_getitem_is_model :
  forall fs k,
    gen_FieldStorage_getitem (emb_form fs) (FStr k) =
    emb_fitem (f_getitem fs k).
Proof. exact form_getitem_is_model. Qed.
Print Assumptions C10_generated_form_getitem_is_model.

Theorem C10_generated_form_keys_is_model :
  forall fs,
    gen_FieldStorage_keys (emb_form fs) =
    Ok (FList LPlain (map FStr (first_occ [] (map fst fs)))).
Proof. exact form_keys_is_model. Qed.
Print Assumptions C10_generated_form_keys_is_model.

Theorem C10_generated_form_getvalue_is_model :
  forall apply fs k,
    gen_FieldStorage_getvalue apply (emb_form fs) (FStr k)
      gen_FieldStorage_getvalue_default_2 gen_FieldStorage_getvalue_default_3 =
    emb_tres (f_getvalue fs k).
Proof. exact form_getvalue_is_model. Qed.
Print Assumptions C10_generated_form_getvalue_is_model.

Theorem C10_generated_form_getfirst_is_model :
  forall apply fs k,
    gen_FieldStorage_getfirst apply (emb_form fs) (FStr k)
      gen_FieldStorage_getfirst_default_2 gen_FieldStorage_getfirst_default_3
      gen_FieldStorage_getfirst_default_4 =
    emb_tres (f_getfirst fs k).
Proof. exact form_getfirst_is_model. Qed.
Print Assumptions C10_generated_form_getfirst_is_model.

Theorem C10_generated_form_getlist_is_model :
  forall apply fs k,
    gen_FieldStorage_getlist apply (emb_form fs) (FStr k)
      gen_FieldStorage_getlist_default_2 gen_FieldStorage_getlist_default_3
      gen_FieldStorage_getlist_default_4 =
    emb_tres (f_getlist fs k).
Proof. exact form_getlist_is_model. Qed.
Print Assumptions C10_generated_form_getlist_is_model.

Theorem C10_generated_form_getvalue_func_is_model :
  forall apply fs k dflt f,
    gen_FieldStorage_getvalue apply (emb_form fs) (FStr k) dflt f =
    if f_contains fs k then
      match f_getitem fs k with
      | None => Err (Raised "KeyError"%string)
      | Some (FOne x) => p_call apply f (FStr (snd x))
      | Some (FMany l) =>
          bind (map_res (p_call apply f) (map (fun x : K * K => FStr (snd x)) l))
               (fun vs => Ok (FList LPlain vs))
      end
    else Ok dflt.
Proof. exact form_getvalue_spec. Qed.
Print Assumptions C10_generated_form_getvalue_func_is_model.

Theorem C10_generated_form_getfirst_func_is_model :
  forall apply fs k dflt f fce b,
    p_truth fce = Ok b ->
    gen_FieldStorage_getfirst apply (emb_form fs) (FStr k) dflt f fce =
    if f_contains fs k then
      match f_getitem fs k with
      | None => Err (Raised "KeyError"%string)
      | Some (FOne x) => p_call apply (pick b fce f) (FStr (snd x))
      | Some (FMany []) => Err (Raised "IndexError"%string)
      | Some (FMany (x :: _)) => p_call apply (pick b fce f) (FStr (snd x))
      end
    else Ok dflt.
Proof. exact form_getfirst_spec. Qed.
Print Assumptions C10_generated_form_getfirst_func_is_model.

(* for every FieldStorage object: getvalue with default None and the
   callback; a list stays, only None gives `default or []`, any other value
   ('' too) is wrapped *)
Theorem C10_generated_form_getlist_func_is_model :
  forall apply self k dflt f fce b bd,
    p_truth fce = Ok b -> p_truth dflt = Ok bd ->
    gen_FieldStorage_getlist apply self k dflt f fce =
    bind (gen_FieldStorage_getvalue apply self k FNone (pick b fce f))
         (fun v => Ok (listify bd dflt v)).
Proof. exact form_getlist_spec. Qed.
Print Assumptions C10_generated_form_getlist_func_is_model.

(* -- (4) parse_json_request, for every decoder and every JSON parser that
   answers objects with distinct keys *)
Theorem C10_generated_parse_json_request_is_model :
  forall decode loads raw charset,
    loads_dicts loads ->
    gen_parse_json_request decode loads (FBytes raw) (FStr charset) =
    emb_json_out (parse_json_request decode loads raw charset).
Proof. exact parse_json_is_model. Qed.
Print Assumptions C10_generated_parse_json_request_is_model.

(* -- (5) the decisions of Request.__init__ over the model's cfg *)
Theorem C10_generated_is_body_request_is_model :
  forall c, gen_is_body_request c = is_body_request c.
Proof. exact is_body_request_is_model. Qed.
Print Assumptions C10_generated_is_body_request_is_model.

Theorem C10_generated_init_buffered_is_model :
  forall c, gen_init_buffered c = buffered c.
Proof. exact init_buffered_is_model. Qed.
Print Assumptions C10_generated_init_buffered_is_model.

Theorem C10_generated_init_json_branch_is_model :
  forall c, gen_init_json_branch c = json_branch c.
Proof. exact init_json_branch_is_model. Qed.
Print Assumptions C10_generated_init_json_branch_is_model.

Theorem C10_generated_init_form_branch_is_model :
  forall c, gen_init_form_branch c = form_branch c.
Proof. exact init_form_branch_is_model. Qed.
Print Assumptions C10_generated_init_form_branch_is_model.

(* the stream is buffered before the body is parsed, as [body_plan] asks *)
Theorem C10_generated_init_steps_is_model :
  gen_init_steps = [SBuffer; SArgs; SBody; SCookies].
Proof. exact init_steps_is_model. Qed.
Print Assumptions C10_generated_init_steps_is_model.

(* ---- generated census of the places that consume an input stream
   (translator harness/py2v_reads.py -> gen/ReadSitesGen.v, regenerated from
   request.py and fieldstorage.py on every run): every read / readline /
   iteration over a stream attribute in those files is one of the call
   sites, with exactly the amount argument, that the read plan of
   QueryForm.v accounts for (model/ReadSites.v), and the two sites the body
   budget rests on are present. *)
From Coq Require Import String.
Local Open Scope string_scope.
Local Open Scope list_scope.
Require Import PW.model.ReadSites PW.gen.ReadSitesGen.

Theorem C10_generated_input_read_sites_are_the_modelled_ones :
  (forall s, In s read_sites -> In s allowed_read_sites) /\
  In ("fieldstorage.FieldStorageParser.read_urlencoded", "self.input",
      "read", "self.length") read_sites /\
  In ("request.Request.__init__", "self.__file", "read",
      "self.__content_length") read_sites.
Proof.
  split; [apply sites_ok_spec; vm_compute; reflexivity|].
  split; vm_compute; tauto.
Qed.
Print Assumptions C10_generated_input_read_sites_are_the_modelled_ones.

(* ---- the head of Request.__init__: request headers rebuilt from the CGI
   variables of the WSGI environment, media type, charset and content length
   (model/EnvHeaders.v, facts in proofs/EnvHeadersFacts.v).  What the body
   parsers are told about the body is what the server put into CONTENT_TYPE /
   CONTENT_LENGTH. *)
Require Import PW.model.EnvHeaders PW.proofs.EnvHeadersFacts.

(* the CGI variable HTTP_<WORDS_IN_UPPER_CASE> of a header maps back to the
   canonical Capitalised-Dashed name, for every header name *)
Theorem C10_cgi_name_roundtrip :
  forall ws, ws <> [] -> (forall w, In w ws -> ~ In 95 w) ->
  header_of_key (cgi_key ws) =
  Some (EnvHeaders.join [45] (map capitalize ws)).
Proof. exact cgi_name_roundtrip. Qed.
Print Assumptions C10_cgi_name_roundtrip.

(* the header table keeps the order and the values of the environment *)
Theorem C10_env_headers_keep_order_and_values :
  forall e,
  map snd (env_headers e) = map snd (filter is_header_key e) /\
  map (fun kv => Some (fst kv)) (env_headers e) =
  map (fun kv => header_of_key (fst kv)) (filter is_header_key e).
Proof. intros e. split; [apply env_headers_values|apply env_headers_names]. Qed.
Print Assumptions C10_env_headers_keep_order_and_values.

(* on an environment where no other key stands for Content-Type /
   Content-Length (what a WSGI server guarantees), the facts every body
   parser starts from are read from CONTENT_TYPE and CONTENT_LENGTH *)
Theorem C10_request_head_from_cgi :
  forall e p,
  assoc k_path_info e = Some p ->
  only_key_for h_ctype k_ctype e -> only_key_for h_clen k_clen e ->
  request_head e =
    HeaderCodec.bind (HeaderCodec.parse_header (or_empty (assoc k_ctype e)))
      (fun cp =>
    HeaderCodec.bind (int_or (assoc k_clen e) (-1)) (fun n =>
    HeaderCodec.Ok (mkfacts (env_headers e) (fst cp)
                            (dgetd (snd cp) s_charset s_utf8) n))).
Proof. exact request_head_from_cgi. Qed.
Print Assumptions C10_request_head_from_cgi.

(* ... and the hypothesis is needed: HTTP_CONTENT_TYPE earlier in the
   environment (a client header "Content_Type") takes the place of
   CONTENT_TYPE *)
Theorem C10_content_type_shadowing_witness :
  hget (env_headers shadow_env) h_ctype = Some [97] /\
  assoc k_ctype shadow_env = Some [98].
Proof. exact content_type_shadowing_witness. Qed.
Print Assumptions C10_content_type_shadowing_witness.

(* the content length is the decimal number sent; absent or empty is -1 *)
Theorem C10_content_length_is_the_number_sent :
  int_or None (-1) = HeaderCodec.Ok (-1) /\
  int_or (Some []) (-1) = HeaderCodec.Ok (-1) /\
  forall n, 0 <= n -> int_or (Some (Dec.dec n)) (-1) = HeaderCodec.Ok n.
Proof.
  split; [exact content_length_absent|].
  split; [exact content_length_empty|exact content_length_decimal].
Qed.
Print Assumptions C10_content_length_is_the_number_sent.

Theorem C10_request_needs_path_info :
  forall e, assoc k_path_info e = None ->
  request_head e = HeaderCodec.Raised "ConnectionError".
Proof. exact request_head_needs_path_info. Qed.
Print Assumptions C10_request_needs_path_info.

(* ---- translator tie: the definition generated from the current source of
   Request.__init__ (its statements from the first one to the assignment of
   the content length; gen/EnvHdrGen.v by harness/py2v_envhdr.py over
   lib/PyEnvHdr.v) is the model, for every environment *)
Require Import PW.lib.PyEnvHdr PW.gen.EnvHdrGen PW.proofs.EnvHdrGenEq.

Theorem C10_generated_request_head_is_model :
  forall e, gen_request_head e = request_head e.
Proof. exact gen_request_head_is_model. Qed.
Print Assumptions C10_generated_request_head_is_model.
