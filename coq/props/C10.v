(* C10  Query, form and JSON data reach handlers exactly as sent.
   Statements only; every proof is [exact <lemma of proofs/QueryFormProofs.v>].
   Strings are lists of code points, bytes lists of byte values.  All
   statements quantify over every pair list / text / configuration. *)
From Coq Require Import ZArith List Bool String.
Require Import PW.lib.Val PW.model.QueryForm PW.proofs.QueryFormProofs.
Import ListNotations.
Open Scope Z_scope.

(* UTF-8: decoding the encoding of any text of Unicode scalar values gives
   the text back (proved arithmetically, no hypothesis left) *)
Theorem C10_utf8_roundtrip :
  forall s, valid_scalar_text s -> utf8_dec (utf8_enc s) = s.
Proof. exact utf8_roundtrip. Qed.
Print Assumptions C10_utf8_roundtrip.

(* quote_plus/urlencode then parse_qsl: exactly the pairs, blanks kept or
   dropped per keep_blank_values *)
Theorem C10_qsl_roundtrip :
  forall pairs keep, valid_pairs pairs ->
    parse_qsl keep (encode pairs) =
    if keep then pairs else filter nonblank pairs.
Proof. exact qsl_roundtrip. Qed.
Print Assumptions C10_qsl_roundtrip.

(* the same for every legal encoding of the pairs ([qs_of]: visible ASCII
   literal, '+' or %20 for a space, %XX with hex digits of either case for
   any byte, empty pieces between '&') *)
Theorem C10_qsl_decodes_any_encoding :
  forall keep q pairs, qs_of q pairs -> valid_pairs pairs ->
    parse_qsl keep q = if keep then pairs else filter nonblank pairs.
Proof. exact qsl_decodes. Qed.
Print Assumptions C10_qsl_decodes_any_encoding.

(* QUERY_STRING -> req.args : strip, parse_qs, collapse *)
Theorem C10_args_roundtrip :
  forall keep q pairs, qs_of q pairs -> valid_pairs pairs ->
    args_of keep q =
    args_dict (if keep then pairs else filter nonblank pairs).
Proof. exact args_roundtrip. Qed.
Print Assumptions C10_args_roundtrip.

(* urlencoded body -> fields of req.form *)
Theorem C10_form_roundtrip :
  forall keep q pairs, qs_of q pairs -> valid_pairs pairs ->
    form_fields keep q = if keep then pairs else filter nonblank pairs.
Proof. exact form_roundtrip. Qed.
Print Assumptions C10_form_roundtrip.

(* single keys scalar, repeated keys lists in order, other keys absent *)
Theorem C10_args_collapse :
  forall pairs k,
    lookup k (args_dict pairs) =
    match vals k pairs with
    | [] => None
    | [v] => Some (AS v)
    | vs => Some (AL vs)
    end.
Proof. exact args_collapse. Qed.
Print Assumptions C10_args_collapse.

Theorem C10_args_key_order :
  forall pairs, map fst (args_dict pairs) = first_occ [] (map fst pairs).
Proof. exact args_key_order. Qed.
Print Assumptions C10_args_key_order.

(* Args: getlist = all values of k in order, getfirst = the first,
   getvalue = scalar or list *)
Theorem C10_accessors_agree_args :
  forall pairs k,
    a_getlist (args_dict pairs) k = TList (map Some (vals k pairs)) /\
    a_getfirst (args_dict pairs) k =
      match vals k pairs with [] => TNone | v :: _ => TStr v end /\
    a_getvalue (args_dict pairs) k =
      match vals k pairs with
      | [] => TNone | [v] => TStr v | vs => TList (map Some vs)
      end.
Proof. exact args_accessors. Qed.
Print Assumptions C10_accessors_agree_args.

(* FieldStorage (fields of a urlencoded body, blank values included) *)
Theorem C10_accessors_agree_form :
  forall fields k,
    f_getlist fields k = TList (map Some (vals k fields)) /\
    f_getfirst fields k =
      match vals k fields with [] => TNone | v :: _ => TStr v end /\
    f_getvalue fields k =
      match vals k fields with
      | [] => TNone | [v] => TStr v | vs => TList (map Some vs)
      end.
Proof. exact form_accessors. Qed.
Print Assumptions C10_accessors_agree_form.

(* JsonDict: getvalue is the value, getlist the list (or the one-element
   list), getfirst the first element or the default *)
Theorem C10_accessors_agree_jsondict :
  forall d k,
    match lookup k d with
    | None => jd_getvalue d k = JRNone /\ jd_getfirst d k = JRNone /\
              jd_getlist d k = JRVal (JArr [])
    | Some (JArr l) =>
        jd_getvalue d k = JRVal (JArr l) /\ jd_getlist d k = JRVal (JArr l) /\
        jd_getfirst d k = match l with [] => JRNone | x :: _ => JRVal x end
    | Some j => jd_getvalue d k = JRVal j /\ jd_getfirst d k = JRVal j /\
                jd_getlist d k = JRVal (JArr [j])
    end.
Proof. exact jsondict_accessors. Qed.
Print Assumptions C10_accessors_agree_jsondict.

Theorem C10_accessors_agree_jsonlist :
  forall l,
    jl_getlist l = JRVal (JArr l) /\
    jl_getvalue l = match l with [] => JRNone | x :: _ => JRVal x end /\
    jl_getfirst l = jl_getvalue l.
Proof. exact jsonlist_accessors. Qed.
Print Assumptions C10_accessors_agree_jsonlist.

Theorem C10_accessors_agree_emptyform :
  forall k, e_getvalue k = TNone /\ e_getfirst k = TNone /\
            e_getlist k = TList [].
Proof. exact empty_accessors. Qed.
Print Assumptions C10_accessors_agree_emptyform.

(* a body that cannot be decoded or parsed is the 400 outcome, for every
   decoder and JSON parser *)
Theorem C10_bad_json_is_400 :
  forall decode loads raw charset,
    (decode charset raw = None \/
     exists t, decode charset raw = Some t /\ loads t = None) ->
    parse_json_request decode loads raw charset = J400.
Proof. exact bad_json_400. Qed.
Print Assumptions C10_bad_json_is_400.

(* Body budget.  Full statement (false, see the refutation):
     forall c, exists n, plan_cost (body_plan c) = Some n /\
                         n <= Z.max 0 (clen c).
   Proved: for every configuration except (a) HTTP/0.9 without a length and
   (b) [raw_lines c]: the multipart (or length-less single part) parser
   working on the raw stream (cached_size = 0 and the body not buffered). *)
Theorem C10_body_budget_partial :
  forall c,
    (http09 c = false \/ 0 <= clen c) -> raw_lines c = false ->
    exists n, plan_cost (body_plan c) = Some n /\ n <= Z.max 0 (clen c).
Proof. exact body_budget. Qed.
Print Assumptions C10_body_budget_partial.

Theorem C10_raw_lines_unbounded :
  forall c, raw_lines c = true ->
    body_plan c = [RLines] /\ plan_cost (body_plan c) = None.
Proof. exact raw_lines_unbounded. Qed.
Print Assumptions C10_raw_lines_unbounded.

Theorem C10_body_budget_refuted :
  exists c, http09 c = false /\ 0 < clen c /\
            plan_cost (body_plan c) = None.
Proof. exact body_budget_refuted. Qed.
Print Assumptions C10_body_budget_refuted.
