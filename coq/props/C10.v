From Coq Require Import ZArith List Bool.
Require Import PW.lib.Val PW.model.QueryForm PW.proofs.QueryFormProofs.
Import ListNotations.
Open Scope Z_scope.
Theorem C10_placeholder : parse_qsl true [] = []. Proof. exact placeholder. Qed.
Print Assumptions C10_placeholder.
